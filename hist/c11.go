package main

import (
	"fmt"
	"time"

	"github.com/free5gc/nas/security"
)

// ---- C11: NAS COUNT as a 24-bit overflow||sqn counter ----
//
// Reference model: v in [0, 2^24).
//   Set(o,s): v = o*256+s      SetSQN(s): v = (v div 256)*256+s
//   SetOverflow(o): v = o*256 + v mod 256      AddOne: v = (v+1) mod 2^24
//   Get/SQN/Overflow: observe; v unchanged.
// After every step: Get()==v, SQN()==v mod 256, Overflow()==v div 256,
// Get()==Overflow()*256+SQN() < 2^24; reads are repeated and issued in a
// history-determined order; other instances must not have moved.

const mod24 = 1 << 24

// every c11DeepEvery-th history contains a Churn step
const c11DeepEvery = 128

type c11state struct {
	real  []security.Count
	model []uint32
}

func c11Apply(st *c11state, i int, s Step, idx int, observe bool) (viol *Viol) {
	defer func() {
		if p := recover(); p != nil {
			viol = &Viol{Key: "C11:" + s.Op + "/panic", Step: idx, Inst: s.Inst, Detail: fmt.Sprintf("%s panicked: %v", s, p)}
		}
	}()
	c := &st.real[s.Inst]
	m := &st.model[s.Inst]
	before := *m
	fail := func(clause, detail string) *Viol {
		return &Viol{Key: "C11:" + s.Op + "/" + clause, Step: idx, Inst: s.Inst, Detail: detail}
	}
	switch s.Op {
	case "Set":
		c.Set(uint16(s.A), uint8(s.B))
		*m = uint32(uint16(s.A))*256 + uint32(uint8(s.B))
	case "SetSQN":
		c.SetSQN(uint8(s.A))
		*m = (*m/256)*256 + uint32(uint8(s.A))
	case "SetOverflow":
		c.SetOverflow(uint16(s.A))
		*m = uint32(uint16(s.A))*256 + *m%256
	case "AddOne":
		// A > 1: a burst of A increments with nothing in between
		n := s.A
		if n < 1 {
			n = 1
		}
		for k := int64(0); k < n; k++ {
			c.AddOne()
		}
		*m = uint32((uint64(*m) + uint64(n)) % mod24)
	case "Get":
		if g := c.Get(); g != *m {
			return fail("state!=model", fmt.Sprintf("Get()=%#x, model %#x", g, *m))
		}
	case "SQN":
		if g := c.SQN(); uint32(g) != *m%256 {
			return fail("state!=model", fmt.Sprintf("SQN()=%#x, model %#x", g, *m%256))
		}
	case "Overflow":
		if g := c.Overflow(); uint32(g) != *m/256 {
			return fail("state!=model", fmt.Sprintf("Overflow()=%#x, model %#x", g, *m/256))
		}
	default:
		return &Viol{Key: "C11:bad-step", Step: idx, Detail: s.Op}
	}
	if !observe {
		// no read at all between this write and the next operation: a read that
		// repairs (or disturbs) hidden state must not be able to hide behind the checker
		return nil
	}
	// observations, in an order that depends on the position in the history
	want := *m
	for k := 0; k < 4; k++ {
		switch (idx + k) % 3 {
		case 0:
			g := c.Get()
			if g >= mod24 {
				return fail("get>=2^24", fmt.Sprintf("Get()=%#x after %s (model before %#x)", g, s, before))
			}
			if g != want {
				clause := "state!=model"
				if k == 3 {
					clause = "read-changed-value"
				}
				return fail(clause, fmt.Sprintf("Get()=%#x, model %#x after %s (model before %#x)", g, want, s, before))
			}
		case 1:
			if g := c.SQN(); uint32(g) != want%256 {
				return fail("state!=model", fmt.Sprintf("SQN()=%#x, model %#x after %s (model before %#x)", g, want%256, s, before))
			}
		case 2:
			if g := c.Overflow(); uint32(g) != want/256 {
				return fail("state!=model", fmt.Sprintf("Overflow()=%#x, model %#x after %s (model before %#x)", g, want/256, s, before))
			}
		}
	}
	if g := uint32(c.Overflow())*256 + uint32(c.SQN()); g != c.Get() {
		return fail("get!=overflow*256+sqn", fmt.Sprintf("Get()=%#x but Overflow()*256+SQN()=%#x", c.Get(), g))
	}
	for j := range st.real {
		if j != s.Inst {
			if g := st.real[j].Get(); g != st.model[j] {
				return fail("other-instance-changed", fmt.Sprintf("instance #%d reads %#x, model %#x, after %s on instance #%d", j, g, st.model[j], s, s.Inst))
			}
		}
	}
	return nil
}

// c11Churn expands a Churn step: s.A operations on one instance drawn from the
// stream s.B, biased so that the 2^24-1 -> 0 wrap and the 255 -> 0 carry happen
// every few operations. Hidden state that only accumulates per wrap, per carry or
// per call (a side counter, a saturating indicator) is driven hundreds to
// thousands of events deep, which explicit histories of a few dozen steps never
// reach. Every expanded operation goes through c11Apply and is observed according
// to the history's observation mode.
func c11Churn(st *c11state, s Step, idx int, obs int) *Viol {
	r := &Rng{s: mix(uint64(s.B)^0xc4c4, 0x11)}
	// Swarm over operation kinds (B = stream + 1000 x mask): a churn with some kinds
	// switched off stays in regions that a uniform mix leaves within a few operations.
	// Without Set and SetOverflow the overflow part only ever moves by carries, so the
	// counter has to travel its whole period to wrap: hidden state that a write to the
	// overflow part resets (a wrap indicator above bit 23, S-c11e) survives from one
	// wrap to the next only there.
	mask := s.B / 1000
	noSet, noOvf, noSqn, noRead, big := mask&1 != 0, mask&2 != 0, mask&4 != 0, mask&8 != 0, mask&16 != 0
	for n := int64(0); n < s.A; n++ {
		var op Step
		switch x := r.Intn(100); {
		case x < 30:
			op = Step{Inst: s.Inst, Op: "AddOne"}
		case x < 44:
			op = Step{Inst: s.Inst, Op: "AddOne", A: int64(2 + r.Intn(300))}
		case x < 45:
			op = Step{Inst: s.Inst, Op: "AddOne", A: int64(250 + r.Intn(20))}
			if r.Chance(20) {
				op.A = []int64{65536, 65537, 4096, 70000}[r.Intn(4)]
			}
		case x < 57:
			op = Step{Inst: s.Inst, Op: "Set", A: 0xffff, B: int64(0xf0 + r.Intn(16))}
		case x < 62:
			op = Step{Inst: s.Inst, Op: "SetOverflow", A: []int64{0xffff, 0xfffe, 0, 0x00ff}[r.Intn(4)]}
		case x < 68:
			op = Step{Inst: s.Inst, Op: "SetSQN", A: int64(250 + r.Intn(6))}
		case x < 73:
			op = Step{Inst: s.Inst, Op: "Set", A: int64(r.U64() & 0xffff), B: int64(r.U64() & 0xff)}
		case x < 82:
			op = Step{Inst: s.Inst, Op: "Get"}
		case x < 91:
			op = Step{Inst: s.Inst, Op: "SQN"}
		default:
			op = Step{Inst: s.Inst, Op: "Overflow"}
		}
		if mask != 0 {
			off := (op.Op == "Set" && noSet) || (op.Op == "SetOverflow" && noOvf) || (op.Op == "SetSQN" && noSqn) ||
				(noRead && (op.Op == "Get" || op.Op == "SQN" || op.Op == "Overflow"))
			if off {
				// a switched-off kind becomes the nearest thing that is still on: a jump of
				// the sequence number to just below the carry, or a burst across it
				if !noSqn && r.Chance(50) {
					op = Step{Inst: s.Inst, Op: "SetSQN", A: int64(250 + r.Intn(6))}
				} else {
					op = Step{Inst: s.Inst, Op: "AddOne", A: int64(1 + r.Intn(600))}
				}
			}
			if big && r.Chance(4) {
				// an eighth to a half of the whole period in one burst: with the overflow
				// writers off this is the only way round
				op = Step{Inst: s.Inst, Op: "AddOne", A: []int64{1 << 21, 1<<22 + 1, 1<<23 - 255, 1 << 20}[r.Intn(4)] + int64(r.Intn(512))}
			}
		}
		observe := obs == 0 || (obs == 1 && n%4 == 3)
		if v := c11Apply(st, s.Inst, op, idx, observe); v != nil {
			v.Detail += fmt.Sprintf(" [operation %d of %s: %s]", n, s, op)
			return v
		}
	}
	return nil
}

// runC11 executes a history from scratch. Start states are entered with Set.
func runC11(h History) *Viol {
	st := &c11state{real: make([]security.Count, len(h.Instances)), model: make([]uint32, len(h.Instances))}
	for i, ic := range h.Instances {
		if ic.Zero {
			continue // zero value of security.Count, never Set: model 0
		}
		if v := c11Apply(st, i, Step{Inst: i, Op: "Set", A: ic.O, B: ic.S}, -1-i, h.Obs == 0); v != nil {
			return v
		}
	}
	for i, s := range h.Steps {
		if s.Inst < 0 || s.Inst >= len(h.Instances) {
			continue
		}
		observe := h.Obs == 0 || (h.Obs == 1 && i%4 == 3)
		if s.Op == "Churn" {
			if v := c11Churn(st, s, i, h.Obs); v != nil {
				return v
			}
			continue
		}
		if v := c11Apply(st, s.Inst, s, i, observe); v != nil {
			return v
		}
	}
	// final observation of every instance (read order varies with the history length)
	for k := range st.real {
		c := &st.real[k]
		want := st.model[k]
		fail := func(clause, detail string) *Viol {
			return &Viol{Key: "C11:final/" + clause, Step: len(h.Steps), Inst: k, Detail: detail + fmt.Sprintf(" (final observation of instance #%d; observation mode %d)", k, h.Obs)}
		}
		for r := 0; r < 3; r++ {
			switch (len(h.Steps) + r) % 3 {
			case 0:
				if g := c.Get(); g != want {
					return fail("state!=model", fmt.Sprintf("Get()=%#x, model %#x", g, want))
				}
			case 1:
				if g := c.SQN(); uint32(g) != want%256 {
					return fail("state!=model", fmt.Sprintf("SQN()=%#x, model %#x", g, want%256))
				}
			case 2:
				if g := c.Overflow(); uint32(g) != want/256 {
					return fail("state!=model", fmt.Sprintf("Overflow()=%#x, model %#x", g, want/256))
				}
			}
		}
	}
	return nil
}

// genC11 builds the history of one start state. nontrivial reports whether it
// crosses a 255->0 carry or the 2^24-1 -> 0 wrap.
func genC11(seed, index uint64, start uint32, buf []Step) (History, bool) {
	r := &Rng{s: mix(seed, index)}
	h := History{Property: "C11", Seed: seed, Index: index, Obs: int((index + index/mod24) % 3)}
	ninst := 1
	if index%8 == 7 {
		ninst = 2 + r.Intn(2)
	}
	model := make([]uint32, ninst)
	for i := 0; i < ninst; i++ {
		s := start
		if i > 0 {
			s = uint32(r.U64()) % mod24
			if r.Chance(50) {
				s = s | 0xff // other instances sit just before a carry
			}
		}
		if (i == 0 && start == 0 && index%2 == 0) || (i > 0 && r.Chance(10)) {
			model[i] = 0
			h.Instances = append(h.Instances, InstCfg{Zero: true})
			continue
		}
		model[i] = s
		h.Instances = append(h.Instances, InstCfg{O: int64(s / 256), S: int64(s % 256)})
	}
	n := 8 + r.Intn(33)
	deep := index%c11DeepEvery == 9 // deep class: one Churn step of thousands of checked operations
	long := index%64 == 5           // long-run class: bursts of thousands of increments without a setter or a read
	steps := buf[:0]
	nontrivial := false
	add := func(s Step) {
		m := &model[s.Inst]
		switch s.Op {
		case "Set":
			*m = uint32(uint16(s.A))*256 + uint32(uint8(s.B))
		case "SetSQN":
			*m = (*m/256)*256 + uint32(uint8(s.A))
		case "SetOverflow":
			*m = uint32(uint16(s.A))*256 + *m%256
		case "AddOne":
			k := uint32(1)
			if s.A > 1 {
				k = uint32(s.A)
			}
			if *m%256+k > 255 {
				nontrivial = true
			}
			*m = uint32((uint64(*m) + uint64(k)) % mod24)
		}
		steps = append(steps, s)
	}
	boundaryO := []int64{0, 1, 0xfffe, 0xffff, 0x7fff, 0x8000, 0x00ff, 0x0100}
	boundaryS := []int64{0, 1, 254, 255, 127, 128}
	deepAt := -1
	if deep {
		deepAt = r.Intn(n)
	}
	for len(steps) < n {
		inst := r.Intn(ninst)
		if len(steps) == deepAt {
			deepAt = -1
			cnt := []int64{600, 2500, 6000, 12000, 40000}[r.Intn(5)]
			cnt += int64(r.Intn(int(cnt / 2)))
			nontrivial = true
			stream := int64(r.Intn(1000))
			if r.Chance(50) {
				// swarm: some operation kinds switched off for this churn (see c11Churn)
				mask := int64(1 + r.Intn(15))
				if r.Chance(40) {
					mask |= 3 // neither Set nor SetOverflow: the overflow part moves by carries only
				}
				if mask&3 == 3 && r.Chance(25) {
					mask |= 16 // ... and bursts of up to half the period, several times round
					cnt = 400 + int64(r.Intn(1200))
				}
				stream += 1000 * mask
			}
			steps = append(steps, Step{Inst: inst, Op: "Churn", A: cnt, B: stream})
			// what the generator believes about the state afterwards only steers later
			// bursts; the runner's model is authoritative
			model[inst] = 0xffff00
			continue
		}
		switch x := r.Intn(100); {
		case long && x < 35:
			// 2^8, 2^16 and 2^17 are where hand-rolled carries and narrow side counters give up
			k := []int64{255, 256, 257, 1000, 4096, 65535, 65536, 65537, 70000, 131072 + int64(r.Intn(512))}[r.Intn(10)]
			if index%1024 == 5 && r.Chance(12) {
				// once or twice round the whole period in one burst, nothing in between
				k = []int64{mod24 - 1, mod24, mod24 + 1, 2*mod24 + 3, mod24 + 65536}[r.Intn(5)] - int64(r.Intn(3))
			}
			add(Step{Inst: inst, Op: "AddOne", A: k})
		case x < 30:
			add(Step{Inst: inst, Op: "AddOne"})
		case x < 45:
			// burst across the next carry (and the wrap, when the overflow part is all ones)
			k := int(256-model[inst]%256) + r.Intn(3)
			if k > n-len(steps) {
				// jump close to the carry first, then cross it
				add(Step{Inst: inst, Op: "SetSQN", A: int64(253 + r.Intn(3))})
				k = 4
			}
			for j := 0; j < k && len(steps) < n+4; j++ {
				add(Step{Inst: inst, Op: "AddOne"})
			}
		case x < 55:
			a := int64(r.U64() & 0xff)
			if r.Chance(50) {
				a = boundaryS[r.Intn(len(boundaryS))]
			}
			add(Step{Inst: inst, Op: "SetSQN", A: a})
		case x < 65:
			a := int64(r.U64() & 0xffff)
			if r.Chance(50) {
				a = boundaryO[r.Intn(len(boundaryO))]
			}
			add(Step{Inst: inst, Op: "SetOverflow", A: a})
		case x < 72:
			a, b := int64(r.U64()&0xffff), int64(r.U64()&0xff)
			if r.Chance(50) {
				a, b = boundaryO[r.Intn(len(boundaryO))], boundaryS[r.Intn(len(boundaryS))]
			}
			add(Step{Inst: inst, Op: "Set", A: a, B: b})
		case x < 82:
			add(Step{Inst: inst, Op: "Get"})
		case x < 91:
			add(Step{Inst: inst, Op: "SQN"})
		default:
			add(Step{Inst: inst, Op: "Overflow"})
		}
	}
	h.Steps = steps
	return h, nontrivial
}

func c11ShrinkArgs(s Step) []Step {
	var out []Step
	try := func(a, b int64) {
		if (a != s.A || b != s.B) && a >= 0 {
			t := s
			t.A, t.B = a, b
			out = append(out, t)
		}
	}
	switch s.Op {
	case "Set":
		try(0, 0)
		try(s.A, 0)
		try(0, s.B)
		try(s.A, 255)
		try(0xffff, s.B)
	case "SetSQN":
		try(0, 0)
		try(255, 0)
	case "SetOverflow":
		try(0, 0)
		try(0xffff, 0)
	case "Churn":
		if s.A > 1 {
			try(s.A/2, s.B)
			try(s.A-s.A/8, s.B)
			try(s.A-1, s.B)
		}
		try(s.A, s.B%1000)
	case "AddOne":
		if s.A > 1 {
			try(s.A/2, 0)
			try(s.A-mod24, 0)
			try(s.A-1, 0)
			try(s.A-256, 0)
			try(s.A-65536, 0)
		}
	}
	return out
}

func c11Start(seed, idx uint64, tier string) uint32 {
	if tier == "thorough" {
		return uint32(idx % mod24)
	}
	r := &Rng{s: mix(seed^0xc11, idx)}
	o := uint32(r.U64() & 0xffff)
	s := uint32(r.U64() & 0xff)
	if r.Chance(60) {
		o = []uint32{0, 1, 0xfffe, 0xffff, 0x7fff, 0x8000}[r.Intn(6)]
	}
	if r.Chance(60) {
		s = []uint32{0, 254, 255, 1, 253}[r.Intn(5)]
	}
	return o*256 + s
}

var c11Engine = &engine{
	prop: "C11", sub: "c11",
	total: func(tier string) uint64 {
		if tier == "thorough" {
			return 6 * mod24 // every start state twice per observation mode, a different seeded history each time
		}
		return 1 << 19
	},
	gen: func(seed, idx uint64, tier string) (History, bool, uint64, []string) {
		start := c11Start(seed, idx, tier)
		h, nt := genC11(seed, idx, start, nil)
		var class []string
		if len(h.Instances) > 1 {
			class = append(class, "multi_instance")
		}
		class = append(class, fmt.Sprintf("obs_mode_%d", h.Obs))
		for _, s := range h.Steps {
			if s.Op == "Churn" {
				class = append(class, "deep_churn")
				if s.B >= 1000 {
					class = append(class, "deep_churn_some_kinds_off")
				}
				if (s.B/1000)&16 != 0 {
					class = append(class, "deep_churn_carries_only_several_periods")
				}
				break
			}
			if s.Op == "AddOne" && s.A >= mod24-8 {
				class = append(class, "full_period_burst")
				break
			}
			if s.Op == "AddOne" && s.A > 1 {
				class = append(class, "long_burst")
				break
			}
		}
		return h, nt, uint64(start), class
	},
	run: func(h History, _ *progress) *Viol { return runC11(h) },
	normalise: func(h History) History {
		// make the observation pattern independent of step positions before shrinking:
		// prefer "observe after every step" (attributes the failure to one step), else
		// "only explicit reads and the end"
		for _, mode := range []int{0, 2} {
			c := h
			c.Obs = mode
			if v := runC11(c); v != nil {
				c.Violation = v
				return c
			}
		}
		return h
	},
	shrinkArgs: c11ShrinkArgs,
}

func checkC11(tier string, seed uint64) int {
	t0 := time.Now()
	known := loadKnown("C11")
	res := c11Engine.explore(seed, tier)
	wall := time.Since(t0).Seconds()
	rc, nviol := 0, 0
	if res.fail != nil {
		nviol = 1
		rc = c11Engine.confirm(*res.fail, res.failRange, tier, known)
	}
	samples := histSamples(res.samples)
	if len(samples) == 0 {
		h, _ := genC11(seed, 0, 0xffffff, nil)
		samples = histSamples([]History{h})
	}
	exhaustive := tier == "thorough"
	writeEvidence(&Evidence{
		PropertyID: "C11", Tier: tier, Seed: seed, Level: "exploration",
		Coverage: map[string]interface{}{
			"evaluations":         res.histories,
			"distinct_nontrivial": res.distinct,
			"rule": "one seeded operation history (8-44 steps over Set/SetSQN/SetOverflow/AddOne/Get/SQN/Overflow, 1-3 interleaved instances; every 64th history is a long-run history with bursts of 255..131k increments; every 128th contains a Churn step that the runner expands into 600-60 000 checked operations biased to wrap 2^24-1 -> 0 and to carry every few operations, half of them with some operation kinds switched off (swarm), a tenth with neither Set nor SetOverflow and bursts of up to half the period so that the counter travels its whole period several times by carries alone; every 1024th history may contain a burst of one or two whole periods; state 0 is also entered as the zero value without Set) per start state; " +
				"thorough enumerates every one of the 2^24 start states six times (twice per observation mode, a different seeded history each time), quick draws 2^19 boundary-biased ones; non-trivial = the history crosses a 255->0 sequence-number carry " +
				"or the 2^24-1->0 wrap at least once; distinct = distinct start states among those",
			"samples":                 samples,
			"exhaustive_start_states": exhaustive,
			"start_states":            map[bool]uint64{true: mod24, false: 1 << 19}[exhaustive],
			"steps_executed":          res.steps,
			"nontrivial_histories":    res.nontrivial,
			"history_classes":         res.classes,
			"worker_processes":        res.processes,
			"histories_per_hour":      float64(res.histories) / wall * 3600,
			"fault_kinds_injected":    map[string]int{},
			"fault_kinds_note":        "none available: security.Count is a single-owner value with no I/O, clock, lock or peer; the only quantifier is the operation history",
			"simulated_time":          "none (no timers in the object)",
			"real_vs_stub":            map[string]string{"security.Count": "real code from /repo working tree", "reference model": "24-bit integer in the harness", "scheduler": "history order and instance interleaving decided by the seeded generator; worker processes execute their index range sequentially on one goroutine"},
			"invariants_per_step":     []string{"observation density varies per history: after every step / every 4th step / only explicit reads and the end", "Get()==model", "SQN()==model mod 256", "Overflow()==model div 256", "Get()<2^24", "Get()==Overflow()*256+SQN()", "repeated read unchanged", "other instances unchanged"},
			"determinism":             "a history is a pure function of (seed, tier, index); workers are sequential processes, so an execution is a pure function of (seed, tier, first index of the range, index); the replay file (with the preceding histories of its range if needed) is re-executed in a fresh process before any VIOLATION is printed",
		},
		Assumptions: []string{
			"start states are entered through Set(overflow, sqn), the only public way to reach them (state 0 also as the zero value)",
			"the history depth per start state is bounded (8-44 steps, long-run class up to ~10^6 increments, deep class up to 60 000 operations with thousands of wraps and carries); deeper dependence than that is not explored",
		},
		WallS: wall, Violations: nviol,
	})
	return rc
}

func stepStrings(steps []Step) []string {
	out := make([]string, len(steps))
	for i, s := range steps {
		out[i] = s.String()
	}
	return out
}
