// Command histcheck is the history engine for the two stateful objects of
// free5gc/nas: security.Count (property C11) and uePolicyContainer.IDGenerator
// (property C20). One seed => one configuration => one operation history that
// is applied step by step to the REAL object (compiled from /repo's working
// tree through the replace directive) and to a small reference model, with the
// invariants evaluated after every step. Violations are shrunk, written as a
// replay file, replayed in a fresh process and only then reported.
package main

import (
	"bufio"
	"encoding/json"
	"fmt"
	"os"
	"path/filepath"
	"strings"
)

type Rng struct{ s uint64 }

func mix(a, b uint64) uint64 {
	x := a ^ (b+0x9e3779b97f4a7c15)*0xbf58476d1ce4e5b9
	x ^= x >> 31
	x *= 0x94d049bb133111eb
	x ^= x >> 29
	return x
}

func (r *Rng) U64() uint64 {
	r.s += 0x9e3779b97f4a7c15
	z := r.s
	z = (z ^ (z >> 30)) * 0xbf58476d1ce4e5b9
	z = (z ^ (z >> 27)) * 0x94d049bb133111eb
	return z ^ (z >> 31)
}

func (r *Rng) Intn(n int) int {
	if n <= 1 {
		return 0
	}
	return int(r.U64() % uint64(n))
}

func (r *Rng) Chance(p int) bool { return r.Intn(100) < p }

// Step is one operation of a history (both engines use it).
type Step struct {
	Inst int    `json:"inst"`
	Op   string `json:"op"`
	A    int64  `json:"a,omitempty"`
	B    int64  `json:"b,omitempty"`
}

func (s Step) String() string {
	switch s.Op {
	case "Set", "Allocate_inRange":
		return fmt.Sprintf("#%d.%s(%d,%d)", s.Inst, s.Op, s.A, s.B)
	case "SetSQN", "SetOverflow", "FreeID":
		return fmt.Sprintf("#%d.%s(%d)", s.Inst, s.Op, s.A)
	case "AddOne":
		if s.A > 1 {
			return fmt.Sprintf("#%d.AddOne()x%d", s.Inst, s.A)
		}
	case "Churn":
		// A operations drawn from the stream B (expanded by the runner, each one checked)
		return fmt.Sprintf("#%d.Churn(%d ops, stream %d)", s.Inst, s.A, s.B)
	}
	return fmt.Sprintf("#%d.%s()", s.Inst, s.Op)
}

// InstCfg configures one object instance of a history.
type InstCfg struct {
	Min int64 `json:"min,omitempty"` // C20: configured bounds
	Max int64 `json:"max,omitempty"`
	O   int64 `json:"overflow,omitempty"` // C11: start state
	S   int64 `json:"sqn,omitempty"`
	// C11: the instance is used as its zero value (no initial Set); start state 0
	Zero bool `json:"zero,omitempty"`
}

type History struct {
	Property  string    `json:"property"`
	Seed      uint64    `json:"seed"`
	Index     uint64    `json:"index"`
	Instances []InstCfg `json:"instances"`
	Steps     []Step    `json:"steps"`
	Drain     bool      `json:"drain,omitempty"`   // C20: run the bounded-liveness drain phase afterwards
	Obs       int       `json:"obs,omitempty"`     // C11: 0 = observe after every step, 1 = after every 4th step, 2 = only through explicit read steps and at the end
	Prelude   *Prelude  `json:"prelude,omitempty"` // histories (regenerated from seed) to execute first on replay
	Violation *Viol     `json:"violation,omitempty"`
}

type Viol struct {
	Key    string `json:"key"`    // stable identity: operation kind x violated clause (x argument class)
	Step   int    `json:"step"`   // index of the failing step (len(steps)+k for the drain phase)
	Detail string `json:"detail"` // human-readable
	Inst   int    `json:"inst"`   // instance the violation was observed on
}

func (v *Viol) Error() string { return fmt.Sprintf("%s at step %d: %s", v.Key, v.Step, v.Detail) }

// shrink minimises a failing history: drop instances, ddmin over steps,
// then shrink arguments; a candidate is kept iff it fails with the same key.
func shrink(h History, run func(History) *Viol, shrinkArgs func(Step) []Step) History {
	key := h.Violation.Key
	fails := func(c History) *Viol {
		v := run(c)
		if v != nil && v.Key == key {
			return v
		}
		return nil
	}
	// drop the tail after the failing step
	if h.Violation.Step >= 0 && h.Violation.Step < len(h.Steps) {
		c := h
		c.Steps = append([]Step(nil), h.Steps[:h.Violation.Step+1]...)
		if v := fails(c); v != nil {
			c.Violation = v
			h = c
		}
	}
	// keep only the instance the failing step belongs to
	if len(h.Instances) > 1 && ((h.Violation.Step >= 0 && h.Violation.Step < len(h.Steps)) || (h.Violation.Inst >= 0 && h.Violation.Inst < len(h.Instances))) {
		keep := h.Violation.Inst
		if h.Violation.Step >= 0 && h.Violation.Step < len(h.Steps) {
			keep = h.Steps[h.Violation.Step].Inst
		}
		c := h
		c.Instances = []InstCfg{h.Instances[keep]}
		c.Steps = nil
		for _, s := range h.Steps {
			if s.Inst == keep {
				s.Inst = 0
				c.Steps = append(c.Steps, s)
			}
		}
		if v := fails(c); v != nil {
			c.Violation = v
			h = c
		}
	}
	// ddmin over steps
	n := 2
	for len(h.Steps) >= 2 {
		chunk := (len(h.Steps) + n - 1) / n
		reduced := false
		for lo := 0; lo < len(h.Steps); lo += chunk {
			hi := lo + chunk
			if hi > len(h.Steps) {
				hi = len(h.Steps)
			}
			c := h
			c.Steps = append(append([]Step(nil), h.Steps[:lo]...), h.Steps[hi:]...)
			if v := fails(c); v != nil {
				c.Violation = v
				h = c
				if n > 2 {
					n--
				}
				reduced = true
				break
			}
		}
		if !reduced {
			if chunk == 1 {
				break
			}
			n *= 2
			if n > len(h.Steps) {
				n = len(h.Steps)
			}
		}
	}
	// pairs of steps that only make sense together (allocate + free, set + read)
	for changed := true; changed && len(h.Steps) <= 400; {
		changed = false
		for i := 0; i < len(h.Steps) && !changed; i++ {
			for j := i + 1; j < len(h.Steps) && j <= i+12; j++ {
				c := h
				c.Steps = make([]Step, 0, len(h.Steps)-2)
				c.Steps = append(c.Steps, h.Steps[:i]...)
				c.Steps = append(c.Steps, h.Steps[i+1:j]...)
				c.Steps = append(c.Steps, h.Steps[j+1:]...)
				if v := fails(c); v != nil {
					c.Violation = v
					h = c
					changed = true
					break
				}
			}
		}
	}
	// smaller configured bounds (C20): shrink the range from the top, then move it to 0 / 1
	for changed := true; changed; {
		changed = false
		for k := range h.Instances {
			ic := h.Instances[k]
			if ic.Max <= ic.Min {
				continue
			}
			for _, nm := range []int64{ic.Min + (ic.Max-ic.Min)/2, ic.Max - 1} {
				if nm < ic.Min || nm >= ic.Max {
					continue
				}
				c := h
				c.Instances = append([]InstCfg(nil), h.Instances...)
				c.Instances[k].Max = nm
				if v := fails(c); v != nil {
					c.Violation = v
					h = c
					changed = true
					break
				}
			}
		}
	}
	// shrink arguments
	if shrinkArgs != nil {
		// pass 0 accepts any failing alternative (boundary values may be "larger");
		// later passes only accept strictly cheaper arguments, so the loop is well-founded
		cost := func(s Step) int64 {
			a, b := s.A, s.B
			if a < 0 {
				a = -a
			}
			if b < 0 {
				b = -b
			}
			return a + b
		}
		for pass, changed := 0, true; changed && pass < 64; pass++ {
			changed = false
			for i := range h.Steps {
				for _, alt := range shrinkArgs(h.Steps[i]) {
					if pass > 0 && cost(alt) >= cost(h.Steps[i]) {
						continue
					}
					c := h
					c.Steps = append([]Step(nil), h.Steps...)
					c.Steps[i] = alt
					if v := fails(c); v != nil {
						c.Violation = v
						h = c
						changed = true
						break
					}
				}
			}
		}
	}
	return h
}

// ---- known findings ----

type Known struct {
	Property string
	Key      string
	Text     string
}

func verifDir() string {
	if d := os.Getenv("VERIF_DIR"); d != "" {
		return d
	}
	return "/verif"
}

// outDir: where evidence/ and replays/ go (VERIF_OUT overrides; used by the self-tests).
func outDir() string {
	if d := os.Getenv("VERIF_OUT"); d != "" {
		return d
	}
	return verifDir()
}

func loadKnown(property string) []Known {
	f, err := os.Open(filepath.Join(verifDir(), "known_findings.txt"))
	if err != nil {
		return nil
	}
	defer f.Close()
	var out []Known
	sc := bufio.NewScanner(f)
	for sc.Scan() {
		ln := strings.TrimSpace(sc.Text())
		if !strings.HasPrefix(ln, "known:") {
			continue // "fixed:" entries are documentation and suppress nothing
		}
		fs := strings.Fields(ln[len("known:"):])
		k := Known{}
		var rest []string
		for _, f := range fs {
			switch {
			case strings.HasPrefix(f, "property="):
				k.Property = f[len("property="):]
			case strings.HasPrefix(f, "key=") && k.Key == "":
				k.Key = f[len("key="):]
			default:
				rest = append(rest, f)
			}
		}
		k.Text = strings.Join(rest, " ")
		if k.Property == property && k.Key != "" {
			out = append(out, k)
		}
	}
	return out
}

// ---- evidence ----

type Evidence struct {
	PropertyID  string                 `json:"property_id"`
	Tier        string                 `json:"tier"`
	Seed        uint64                 `json:"seed"`
	Level       string                 `json:"level"`
	Coverage    map[string]interface{} `json:"coverage"`
	Assumptions []string               `json:"assumptions"`
	WallS       float64                `json:"wall_s"`
	Violations  int                    `json:"violations"`
}

func writeEvidence(e *Evidence) {
	dir := filepath.Join(outDir(), "evidence")
	os.MkdirAll(dir, 0o755)
	b, _ := json.MarshalIndent(e, "", " ")
	tmp := filepath.Join(dir, e.PropertyID+".json.tmp")
	if err := os.WriteFile(tmp, append(b, '\n'), 0o644); err != nil {
		fmt.Fprintln(os.Stderr, "histcheck: evidence:", err)
		os.Exit(2)
	}
	if err := os.Rename(tmp, filepath.Join(dir, e.PropertyID+".json")); err != nil {
		fmt.Fprintln(os.Stderr, "histcheck: evidence:", err)
		os.Exit(2)
	}
}

func writeReplay(h History, name string) string {
	dir := filepath.Join(outDir(), "replays")
	os.MkdirAll(dir, 0o755)
	p := filepath.Join(dir, name)
	b, _ := json.MarshalIndent(h, "", " ")
	if err := os.WriteFile(p, append(b, '\n'), 0o644); err != nil {
		fmt.Fprintln(os.Stderr, "histcheck: replay file:", err)
		os.Exit(2)
	}
	return p
}

func readHistory(path string) History {
	b, err := os.ReadFile(path)
	if err != nil {
		fmt.Fprintln(os.Stderr, "histcheck:", err)
		os.Exit(2)
	}
	var h History
	if err := json.Unmarshal(b, &h); err != nil {
		fmt.Fprintln(os.Stderr, "histcheck: bad replay file:", err)
		os.Exit(2)
	}
	return h
}

func sanitize(s string) string {
	r := strings.NewReplacer("/", "_", "<", "lt", ">", "gt", " ", "_", "|", "_", ":", "_", "=", "_")
	return r.Replace(s)
}
