package main

import (
	"fmt"
	"math"
	"os"
	"os/exec"
	"sort"
	"strings"
	"sync/atomic"
	"time"

	"github.com/free5gc/nas/uePolicyContainer"
)

// ---- C20: policy-section ID allocator ----
//
// Reference model (deliberately NOT the scan algorithm - the property does not
// say which identifier is returned): live is a subset of [min,max].
//   Allocate -> (id,nil): min<=id<=max and id not live; live += id
//   Allocate -> error   : |live| == max-min+1
//   Allocate_inRange(lo,hi) -> (id,nil): min<=id<=max and id not live; live += id
//   Allocate_inRange -> error: unconstrained (the property lets it fail)
//   FreeID(x): live -= x (x outside the bounds: no-op)
// Drain (bounded liveness): afterwards Allocate is called until it fails; it
// must hand out every non-live identifier exactly once within
// (max-min+1)-|live| calls and fail on the next one.

type c20inst struct {
	g        *uePolicyContainer.IDGenerator
	min, max int64
	live     map[int64]bool
}

type progress struct {
	busy  atomic.Int64 // unix nanos when the current library call started, 0 when idle
	index atomic.Uint64
	step  atomic.Int64
}

func argClass(lo, min, max int64) string {
	switch {
	case lo < 0:
		return "lo<0"
	case lo > max-min:
		return "lo>range"
	}
	return "lo-in-range"
}

func c20Step(in *c20inst, s Step, idx int, pg *progress) (viol *Viol) {
	defer func() {
		if p := recover(); p != nil {
			if pg != nil {
				pg.busy.Store(0)
			}
			// a call that panics neither returns a fresh in-bounds identifier nor fails cleanly
			viol = &Viol{Key: "C20:" + s.Op + "/panic", Step: idx, Inst: s.Inst, Detail: fmt.Sprintf("%s panicked: %v", s, p)}
		}
	}()
	fail := func(clause, detail string) *Viol {
		return &Viol{Key: "C20:" + s.Op + "/" + clause, Step: idx, Inst: s.Inst, Detail: detail}
	}
	mark := func() {
		if pg != nil {
			pg.step.Store(int64(idx))
			pg.busy.Store(time.Now().UnixNano())
		}
	}
	unmark := func() {
		if pg != nil {
			pg.busy.Store(0)
		}
	}
	size := in.max - in.min + 1
	switch s.Op {
	case "Allocate":
		mark()
		id, err := in.g.Allocate()
		unmark()
		if err != nil {
			if int64(len(in.live)) != size {
				return fail("error-while-free-ids", fmt.Sprintf("Allocate failed (%v) with %d of %d identifiers live (free: %v)", err, len(in.live), size, freeIDs(in)))
			}
			return nil
		}
		if id < in.min || id > in.max {
			return fail("out-of-bounds", fmt.Sprintf("Allocate returned %d outside [%d,%d]", id, in.min, in.max))
		}
		if in.live[id] {
			return fail("duplicate-live", fmt.Sprintf("Allocate returned %d which is still live (live: %v)", id, liveIDs(in)))
		}
		in.live[id] = true
	case "Allocate_inRange":
		mark()
		id, err := in.g.Allocate_inRange(s.A, s.B)
		unmark()
		if err != nil {
			return nil
		}
		if id < in.min || id > in.max {
			return fail("out-of-bounds/"+argClass(s.A, in.min, in.max), fmt.Sprintf("Allocate_inRange(%d,%d) returned %d outside [%d,%d]", s.A, s.B, id, in.min, in.max))
		}
		if in.live[id] {
			return fail("duplicate-live", fmt.Sprintf("Allocate_inRange(%d,%d) returned %d which is still live (live: %v)", s.A, s.B, id, liveIDs(in)))
		}
		in.live[id] = true
	case "FreeID":
		mark()
		in.g.FreeID(s.A)
		unmark()
		if s.A >= in.min && s.A <= in.max {
			delete(in.live, s.A)
		}
	default:
		return &Viol{Key: "C20:bad-step", Step: idx, Detail: s.Op}
	}
	return nil
}

// c20Churn expands a Churn step: s.A operations on one allocator, drawn from the
// stream s.B and from the MODEL's live set (so that frees hit live identifiers and
// the deep counters of an implementation - total frees, total allocations, map
// growth - are driven far beyond what an explicit step list of a few hundred
// entries reaches). Every expanded operation goes through c20Step, i.e. through
// every per-step check. Occupancy moves in phases between nearly empty and full.
func c20Churn(in *c20inst, s Step, idx int, pg *progress) *Viol {
	r := &Rng{s: mix(uint64(s.B)^0xc4c4, 0x20)}
	size := in.max - in.min + 1
	if size <= 0 {
		return nil
	}
	pickLive := func() (int64, bool) {
		if len(in.live) == 0 {
			return 0, false
		}
		off := int64(r.U64() % uint64(size))
		for k := int64(0); k < size; k++ {
			id := in.min + (off+k)%size
			if in.live[id] {
				return id, true
			}
		}
		return 0, false
	}
	// Swarm over operation kinds (B = stream + 1000 x mask; 0 = the uniform mix):
	// 1 only ranged allocations, 2 no ranged allocations, 4 frees also hit identifiers
	// that are not live or not in range, 8 ranged allocations with any arguments
	// (swapped, beyond the bounds, negative), 16 ranged allocations dominate (60 %).
	mask := s.B / 1000
	onlyRanged, noRanged, wildFree, wildArgs, manyRanged := mask&1 != 0 && mask&2 == 0, mask&2 != 0, mask&4 != 0, mask&8 != 0, mask&16 != 0
	pRanged := 12
	if manyRanged {
		pRanged = 60
	}
	longPhases := mask&32 != 0 // big allocators: phases long enough to fill and to empty them
	phaseLen := int64(64)
	if longPhases {
		phaseLen = size/3 + 1
	}
	bias := 50 // percent allocations
	for n := int64(0); n < s.A; n++ {
		if n%phaseLen == 0 {
			bias = []int{15, 35, 50, 50, 65, 85}[r.Intn(6)]
			if longPhases {
				bias = []int{97, 97, 99, 3, 50, 90}[r.Intn(6)]
			}
		}
		var st Step
		x := r.Intn(100)
		alloc := func() Step {
			if noRanged || (!onlyRanged && !r.Chance(pRanged)) {
				return Step{Inst: s.Inst, Op: "Allocate"}
			}
			lo := int64(r.U64() % uint64(size))
			hi := lo + int64(r.U64()%uint64(size-lo))
			if wildArgs && r.Chance(40) {
				switch r.Intn(4) {
				case 0:
					lo, hi = hi, lo
				case 1:
					hi += size + int64(r.Intn(5))
				case 2:
					lo = -1 - int64(r.Intn(int(size)+2))
				default:
					lo, hi = lo+in.min, hi+in.min // as identifiers, not offsets
				}
			}
			return Step{Inst: s.Inst, Op: "Allocate_inRange", A: lo, B: hi}
		}
		switch {
		case x < bias:
			st = alloc()
		default:
			id, ok := pickLive()
			if wildFree && r.Chance(20) {
				id, ok = in.min-2+int64(r.U64()%uint64(size+4)), true
			}
			if !ok {
				st = alloc()
			} else {
				st = Step{Inst: s.Inst, Op: "FreeID", A: id}
			}
		}
		if v := c20Step(in, st, idx, pg); v != nil {
			v.Detail += fmt.Sprintf(" [operation %d of %s: %s]", n, s, st)
			return v
		}
	}
	return nil
}

func liveIDs(in *c20inst) []int64 {
	var out []int64
	for k := range in.live {
		out = append(out, k)
	}
	sort.Slice(out, func(i, j int) bool { return out[i] < out[j] })
	return out
}

func freeIDs(in *c20inst) []int64 {
	var out []int64
	size := in.max - in.min + 1
	// (by offset: max may be the largest int64; at most 64 for the message)
	for k := int64(0); k < size && len(out) < 64; k++ {
		if !in.live[in.min+k] {
			out = append(out, in.min+k)
		}
	}
	return out
}

func runC20pg(h History, pg *progress) *Viol {
	insts := make([]*c20inst, len(h.Instances))
	for i, ic := range h.Instances {
		if ic.Max < ic.Min {
			return nil // degenerate allocators are outside the property
		}
		g := newGeneratorOrNil(ic.Min, ic.Max)
		if g == nil {
			return nil // the constructor rejects these bounds: outside the property
		}
		insts[i] = &c20inst{g: g, min: ic.Min, max: ic.Max, live: map[int64]bool{}}
	}
	for i, s := range h.Steps {
		if s.Inst < 0 || s.Inst >= len(insts) {
			continue
		}
		if s.Op == "Churn" {
			if v := c20Churn(insts[s.Inst], s, i, pg); v != nil {
				return v
			}
			continue
		}
		if v := c20Step(insts[s.Inst], s, i, pg); v != nil {
			return v
		}
	}
	if !h.Drain {
		return nil
	}
	idx := len(h.Steps)
	for k, in := range insts {
		size := in.max - in.min + 1
		budget := size - int64(len(in.live))
		for n := int64(0); n < budget; n++ {
			if v := c20Step(in, Step{Inst: k, Op: "Allocate"}, idx, pg); v != nil {
				v.Key = strings.Replace(v.Key, "C20:Allocate/", "C20:drain/", 1)
				return v
			}
			idx++
		}
		if int64(len(in.live)) != size {
			return &Viol{Key: "C20:drain/missing-id", Step: idx, Detail: fmt.Sprintf("after %d allocations %v are still not handed out", budget, freeIDs(in))}
		}
		if pg != nil {
			pg.step.Store(int64(idx))
			pg.busy.Store(time.Now().UnixNano())
		}
		id, err := in.g.Allocate()
		if pg != nil {
			pg.busy.Store(0)
		}
		if err == nil {
			return &Viol{Key: "C20:drain/no-error-when-full", Step: idx, Detail: fmt.Sprintf("all %d identifiers live but Allocate returned %d", size, id)}
		}
		idx++
	}
	return nil
}

func runC20(h History) *Viol { return runC20pg(h, nil) }

func newGeneratorOrNil(min, max int64) (g *uePolicyContainer.IDGenerator) {
	defer func() {
		if recover() != nil {
			g = nil
		}
	}()
	return uePolicyContainer.NewGenerator(min, max)
}

// every c20DeepEvery-th history is a deep-churn history
const c20DeepEvery = 400

// every c20BigEvery-th history is a big-allocator history (a deep-churn history on one
// allocator of 1 000 - 4 160 identifiers)
const c20BigEvery = 1500

var c20mins = []int64{0, 1, 2, 5, 100, 65530, -3, -1, 0, 1, 1<<31 - 2, 1<<32 + 5, 1 << 40, -(1 << 33)}

func genC20(seed, index uint64, maxSize int) History {
	r := &Rng{s: mix(seed^0xc20, index)}
	h := History{Property: "C20", Seed: seed, Index: index, Drain: true}
	ninst := 1
	if r.Chance(15) {
		ninst = 2 + r.Intn(2)
	}
	if index%c20BigEvery == 13 {
		ninst = 1
	}
	type gi struct {
		min, max, size int64
		live           []int64 // generator's own guess of what is live (only steers generation)
	}
	gis := make([]*gi, ninst)
	for i := range gis {
		size := int64(1 + r.Intn(maxSize))
		switch x := r.Intn(100); {
		case x < 45:
			size = int64(1 + r.Intn(8))
		case x < 55:
			// sizes around powers of two: where bitmaps, byte counters and masks go wrong
			size = []int64{15, 16, 17, 31, 32, 33, 63, 64, 65, 127, 128, 129, 255, 256, 257}[r.Intn(15)]
			if maxSize <= 8 && r.Chance(50) {
				size = []int64{7, 8, 9, 15, 16, 17}[r.Intn(6)]
			}
		}
		min := c20mins[r.Intn(len(c20mins))]
		switch x := r.Intn(100); {
		case x < 5:
			min = math.MaxInt64 - size + 1 // the top identifier is the largest int64 there is
		case x < 7:
			min = math.MinInt64
		}
		if index%c20BigEvery == 13 {
			// big class: sizes next to 2^10, 2^11 and 2^12, one allocator, phases long enough
			// to fill it (the 2^16 identifiers of a real UPSC space are not churned: the
			// library's scan costs O(size) per allocation when the allocator is nearly full)
			size = []int64{1000, 1024, 2048, 4032, 4095, 4096, 4097, 4160}[r.Intn(8)]
			min = []int64{0, 0, 1, 100, -3}[r.Intn(5)]
		}
		gis[i] = &gi{min: min, max: min + size - 1, size: size}
		h.Instances = append(h.Instances, InstCfg{Min: min, Max: min + size - 1})
	}
	var maxSteps int
	for _, g := range gis {
		maxSteps += int(6 * g.size)
	}
	n := 1 + r.Intn(maxSteps)
	if index%50 == 7 {
		// churn class: thousands of operations on a small allocator (total-operation
		// counters, many wraps of the scan offset)
		n = 600 + r.Intn(4000)
		if maxSteps > 400 {
			n = maxSteps + r.Intn(2000)
		}
	}
	deep := index%c20DeepEvery == 11
	big := index%c20BigEvery == 13
	if big {
		deep = true
	}
	if deep {
		// deep-churn class: a short explicit prefix, then tens of thousands of checked
		// operations (past 2^12 and 2^16 successful frees on one allocator), then a short
		// explicit suffix and the drain
		n = 1 + r.Intn(12)
	}
	phase := 0 // 0 mixed, 1 fill, 2 free
	phaseLeft := 0
	deepAt := -1
	if deep {
		deepAt = r.Intn(n + 1)
	}
	for len(h.Steps) < n+map[bool]int{true: 1, false: 0}[deep] {
		if len(h.Steps) == deepAt {
			cnt := []int64{3000, 9000, 20000, 40000, 140000}[r.Intn(5)]
			cnt += int64(r.Intn(int(cnt / 2)))
			stream := int64(r.Intn(1000))
			if r.Chance(50) {
				stream += 1000 * int64(1+r.Intn(31)) // swarm: see c20Churn
			}
			if big {
				cnt = 2*gis[0].size + int64(r.Intn(int(3*gis[0].size)))
				stream = stream%1000 + 1000*(32+int64(r.Intn(2))*int64(r.Intn(32)))
			}
			h.Steps = append(h.Steps, Step{Inst: r.Intn(ninst), Op: "Churn", A: cnt, B: stream})
			continue
		}
		k := r.Intn(ninst)
		g := gis[k]
		if phaseLeft == 0 {
			phase = r.Intn(3)
			phaseLeft = 1 + r.Intn(int(2*g.size))
		}
		phaseLeft--
		x := r.Intn(100)
		switch phase {
		case 1:
			if x < 85 {
				x = 0
			} else {
				x = 50
			}
		case 2:
			if x < 80 {
				x = 90
			}
		}
		switch {
		case x < 40:
			h.Steps = append(h.Steps, Step{Inst: k, Op: "Allocate"})
			g.live = append(g.live, g.min+int64(len(g.live))%g.size)
		case x < 70:
			var lo, hi int64
			switch r.Intn(8) {
			case 0, 1, 2: // in-bounds sub-range given as offsets
				lo = int64(r.Intn(int(g.size)))
				hi = lo + int64(r.Intn(int(g.size-lo)))
			case 3: // the bounds themselves
				lo, hi = g.min, g.max
			case 4: // swapped
				hi = int64(r.Intn(int(g.size)))
				lo = hi + int64(r.Intn(int(g.size-hi)))
			case 5: // above the range
				lo = g.size + int64(r.Intn(int(g.size)+3))
				hi = lo + int64(r.Intn(4))
			case 6: // below zero / below the minimum
				lo = -1 - int64(r.Intn(int(g.size)+2))
				hi = int64(r.Intn(int(g.size)))
			default: // identifiers rather than offsets
				lo = g.min + int64(r.Intn(int(g.size)))
				hi = g.min + int64(r.Intn(int(g.size)))
			}
			if r.Chance(3) {
				// far outside anything 32 bits can hold
				lo += (int64(r.Intn(5)) - 2) << 32
			}
			h.Steps = append(h.Steps, Step{Inst: k, Op: "Allocate_inRange", A: lo, B: hi})
		default:
			var id int64
			switch {
			case r.Chance(8):
				id = g.min - 1 - int64(r.Intn(3))
			case r.Chance(8):
				id = g.max + 1 + int64(r.Intn(3))
			default:
				id = g.min + int64(r.Intn(int(g.size)))
			}
			h.Steps = append(h.Steps, Step{Inst: k, Op: "FreeID", A: id})
		}
	}
	return h
}

func c20ShrinkArgs(s Step) []Step {
	var out []Step
	try := func(a, b int64) {
		if a != s.A || b != s.B {
			t := s
			t.A, t.B = a, b
			out = append(out, t)
		}
	}
	if s.Op == "Churn" {
		if s.A > 1 {
			try(s.A/2, s.B)
			try(s.A-s.A/8, s.B)
			try(s.A-1, s.B)
		}
		try(s.A, 0)
	}
	if s.Op == "Allocate_inRange" {
		try(0, 0)
		try(s.A, 0)
		try(0, s.B)
		try(-1, s.B)
		try(-1, 0)
		if s.A > 0 {
			try(s.A-1, s.B)
		}
		if s.A < -1 {
			try(s.A+1, s.B)
		}
	}
	return out
}

// c20Trivial: classification for the evidence.
type c20Class struct {
	exhaustion, freeRealloc, wrap, inrange bool
}

func classifyC20(h History) c20Class {
	// replay on the model only (set semantics) to see which boundaries the history crosses
	var c c20Class
	type m struct {
		size   int64
		live   int64
		freed  bool
		allocs int64
	}
	ms := make([]m, len(h.Instances))
	for i, ic := range h.Instances {
		ms[i].size = ic.Max - ic.Min + 1
	}
	for _, s := range h.Steps {
		x := &ms[s.Inst]
		switch s.Op {
		case "Allocate", "Allocate_inRange":
			if s.Op == "Allocate_inRange" {
				c.inrange = true
			}
			if x.live < x.size {
				x.live++
				x.allocs++
				if x.freed {
					c.freeRealloc = true
				}
				if x.allocs > x.size {
					c.wrap = true
				}
			} else {
				c.exhaustion = true
			}
		case "FreeID":
			if x.live > 0 {
				x.live--
				x.freed = true
			}
		case "Churn":
			// thousands of allocations and frees of live identifiers
			c.freeRealloc = true
			if s.A > 4*x.size {
				c.wrap, c.exhaustion = true, true
			}
			x.freed = true
		}
	}
	return c
}

func c20MaxSize(tier string) int {
	if tier == "thorough" {
		return 40
	}
	return 8
}

var c20Engine = &engine{
	prop: "C20", sub: "c20",
	total: func(tier string) uint64 {
		if tier == "thorough" {
			return 60_000_000
		}
		return 600_000
	},
	gen: func(seed, idx uint64, tier string) (History, bool, uint64, []string) {
		h := genC20(seed, idx, c20MaxSize(tier))
		cl := classifyC20(h)
		var class []string
		if cl.exhaustion {
			class = append(class, "exhaustion")
		}
		if cl.freeRealloc {
			class = append(class, "free_then_realloc")
		}
		if cl.wrap {
			class = append(class, "offset_wrap")
		}
		if cl.inrange {
			class = append(class, "allocate_in_range")
		}
		if len(h.Instances) > 1 {
			class = append(class, "multi_instance")
		}
		if len(h.Steps) >= 600 {
			class = append(class, "churn")
		}
		for _, st := range h.Steps {
			if st.Op == "Churn" {
				class = append(class, "deep_churn")
				if (st.B/1000)&32 != 0 {
					class = append(class, "big_allocator_1000_to_4160_ids")
				}
				if st.B >= 1000 {
					class = append(class, "deep_churn_swarm_of_kinds")
				}
				break
			}
		}
		return h, cl.exhaustion || cl.freeRealloc || cl.wrap, hashHistory(h), class
	},
	run:        func(h History, pg *progress) *Viol { return runC20pg(h, pg) },
	shrinkArgs: c20ShrinkArgs,
}

func checkC20(tier string, seed uint64) int {
	t0 := time.Now()
	known := loadKnown("C20")
	knownKeys := map[string]Known{}
	for _, k := range known {
		knownKeys[k.Key] = k
	}
	maxSize := c20MaxSize(tier)
	res := c20Engine.explore(seed, tier)
	wall := time.Since(t0).Seconds()
	rc, nviol := 0, 0
	switch {
	case res.hang != nil:
		// confirm in a fresh process (which has its own timer)
		hung := res.hang
		path := writeReplay(*hung, "C20-"+sanitize(strings.TrimPrefix(hung.Violation.Key, "C20:"))+".json")
		v := replayChild("c20", path)
		if v == nil || v.Key != hung.Violation.Key {
			// perhaps it only hangs after the histories that preceded it in its worker
			withPre := *hung
			withPre.Prelude = &Prelude{Tier: tier, From: res.failRange[0], To: hung.Index}
			path = writeReplay(withPre, "C20-"+sanitize(strings.TrimPrefix(hung.Violation.Key, "C20:"))+".json")
			v = replayChild("c20", path)
		}
		if v != nil && v.Key == hung.Violation.Key {
			if k, ok := knownKeys[v.Key]; ok {
				fmt.Printf("KNOWN-FINDING: property=C20 %s\n", k.Text)
			} else {
				fmt.Printf("C20 violated: %s\n  %s\n  history prefix: %s\n", v.Key, v.Detail, strings.Join(stepStrings(hung.Steps), " "))
				for i, ic := range hung.Instances {
					fmt.Printf("  instance #%d: NewGenerator(%d,%d)\n", i, ic.Min, ic.Max)
				}
				fmt.Printf("VIOLATION property=C20 replay=%s\n", path)
				rc = 1
				nviol++
			}
		} else {
			fmt.Fprintf(os.Stderr, "histcheck: a call timed out but the prefix does not time out again in a fresh process; treating as machinery trouble\n")
			os.Exit(2)
		}
	default:
		keys := make([]string, 0, len(res.knownHits))
		for k := range res.knownHits {
			keys = append(keys, k)
		}
		sort.Strings(keys)
		for _, k := range keys {
			min := shrink(res.knownHits[k], runC20, c20ShrinkArgs)
			fmt.Printf("KNOWN-FINDING: property=C20 %s [%s; e.g. %s]\n", knownKeys[k].Text, k, strings.Join(stepStrings(min.Steps), " "))
		}
		if res.fail != nil {
			nviol++
			rc = c20Engine.confirm(*res.fail, res.failRange, tier, nil)
		}
	}
	samples := histSamples(res.samples)
	if len(samples) == 0 {
		samples = histSamples([]History{genC20(seed, 0, maxSize)})
	}
	writeEvidence(&Evidence{
		PropertyID: "C20", Tier: tier, Seed: seed, Level: "exploration",
		Coverage: map[string]interface{}{
			"evaluations":         res.histories,
			"distinct_nontrivial": res.distinct,
			"rule": fmt.Sprintf("one seeded history per index: 1-3 interleaved allocators with min in %v and 1..%d identifiers (10 %% of them with sizes next to powers of two up to 257), up to 6*size steps of Allocate / Allocate_inRange / FreeID in fill, free and mixed phases (every 50th history is a churn history of 600-4600 steps; every 400th a deep-churn history: one Churn step that the runner expands into 3 000-210 000 checked operations drawn from the model's live set, so that per-allocator totals pass 2^12 and 2^16 frees; half of them with a swarm mask: only / no / mostly ranged allocations, frees of identifiers that are not live, ranged allocations with arbitrary arguments), "+
				"then a drain phase (Allocate until failure); non-trivial = the history reaches exhaustion, re-allocates after a free, or allocates more than size identifiers in total (scan offset wraps); "+
				"distinct = distinct FNV-64 hashes of (instances, steps) among those", c20mins, maxSize),
			"samples":              samples,
			"steps_executed":       res.steps,
			"nontrivial_histories": res.nontrivial,
			"history_classes":      res.classes,
			"worker_processes":     res.processes,
			"histories_per_hour":   float64(res.histories) / wall * 3600,
			"known_findings_hit":   len(res.knownHits),
			"fault_kinds_injected": map[string]int{},
			"fault_kinds_note":     "none available: IDGenerator is a single-owner object with no I/O, clock, lock or peer (its mutex is commented out and C20 is about one sequence of operations); the only quantifier is the operation history",
			"simulated_time":       "none (no timers in the object)",
			"real_vs_stub":         map[string]string{"uePolicyContainer.IDGenerator": "real code from /repo working tree", "reference model": "set of live identifiers in the harness", "scheduler": "history and instance interleaving decided by the seeded generator; worker processes execute their index range sequentially on one goroutine"},
			"invariants_per_step":  []string{"returned id within [min,max]", "returned id not live", "Allocate fails only when all identifiers are live"},
			"end_of_history":       "drain: every non-live identifier is handed out exactly once within (size-|live|) Allocate calls, the next Allocate fails (bounded liveness, and 'a freed identifier becomes allocatable again')",
			"hang_handling":        "every library call is timed; a call that exceeds 5 s ends its worker, the history prefix is re-run in a fresh process and reported as no-return only if it hangs there too",
			"determinism":          "a history is a pure function of (seed, tier, index); workers are sequential processes; the replay file (with the preceding histories of its range if needed) is re-executed in a fresh process before any VIOLATION is printed",
		},
		Assumptions: []string{
			"allocators with max < min are outside the property and are not generated",
			"a failing Allocate_inRange is unconstrained; a successful one need not lie in [lo,hi] (the property does not say so)",
			"bounded depth: at most 6*size steps per allocator before the drain phase (churn class: up to 4600; deep-churn class: up to 210 000 operations on one allocator)",
		},
		WallS: wall, Violations: nviol,
	})
	return rc
}

func hashHistory(h History) uint64 {
	x := uint64(1469598103934665603)
	f := func(v uint64) { x = (x ^ v) * 1099511628211 }
	for _, ic := range h.Instances {
		f(uint64(ic.Min))
		f(uint64(ic.Max))
	}
	for _, s := range h.Steps {
		f(uint64(s.Inst))
		f(uint64(len(s.Op)))
		f(uint64(s.A))
		f(uint64(s.B))
	}
	return x
}

// replayChild runs `histcheck <sub> -replay path` in a fresh process with a
// wall timer and returns the violation it reports (nil: none).
func replayChild(sub, path string) *Viol {
	cmd := exec.Command(os.Args[0], sub, "-replay", path, "-child")
	cmd.Env = os.Environ()
	var out strings.Builder
	cmd.Stdout = &out
	cmd.Stderr = os.Stderr
	if err := cmd.Start(); err != nil {
		fmt.Fprintln(os.Stderr, "histcheck: cannot start replay child:", err)
		os.Exit(2)
	}
	donec := make(chan error, 1)
	go func() { donec <- cmd.Wait() }()
	select {
	case <-donec:
	case <-time.After(20 * time.Second):
		cmd.Process.Kill()
		<-donec
		h := readHistory(path)
		if h.Violation != nil && strings.HasSuffix(h.Violation.Key, "/no-return") {
			return &Viol{Key: h.Violation.Key, Step: h.Violation.Step, Detail: "replay in a fresh process did not return within 20 s either"}
		}
		return &Viol{Key: "replay-timeout", Detail: "replay child did not finish"}
	}
	for _, ln := range strings.Split(out.String(), "\n") {
		if strings.HasPrefix(ln, "REPLAY-VIOLATION ") {
			rest := ln[len("REPLAY-VIOLATION "):]
			parts := strings.SplitN(rest, " ", 3)
			v := &Viol{}
			if len(parts) > 0 {
				v.Key = strings.TrimPrefix(parts[0], "key=")
			}
			if len(parts) > 1 {
				fmt.Sscanf(strings.TrimPrefix(parts[1], "step="), "%d", &v.Step)
			}
			if len(parts) > 2 {
				v.Detail = parts[2]
			}
			return v
		}
	}
	return nil
}
