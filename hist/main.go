package main

import (
	"flag"
	"fmt"
	"os"
	"path/filepath"
	"strconv"
	"strings"
)

func seedFromEnv() uint64 {
	s := os.Getenv("VERIF_SEED")
	if s == "" {
		return 1
	}
	if v, err := strconv.ParseUint(s, 0, 64); err == nil {
		return v
	}
	if v, err := strconv.ParseInt(s, 0, 64); err == nil {
		return uint64(v)
	}
	// any other string: hash it
	h := uint64(1469598103934665603)
	for i := 0; i < len(s); i++ {
		h = (h ^ uint64(s[i])) * 1099511628211
	}
	return h
}

// report writes the minimised history as a replay file, re-executes it in a
// fresh process and prints the verdict. Returns the exit code.
func report(prop string, min History, known []Known, replay func(path string) *Viol) int {
	path := writeReplay(min, prop+"-"+sanitize(strings.TrimPrefix(min.Violation.Key, prop+":"))+".json")
	v := replay(path)
	if v == nil || v.Key != min.Violation.Key {
		got := "no violation"
		if v != nil {
			got = v.Key
		}
		fmt.Fprintf(os.Stderr, "histcheck: minimised history %s does not reproduce in a fresh process (expected %s, got %s): machinery trouble\n", path, min.Violation.Key, got)
		os.Exit(2)
	}
	for _, k := range known {
		if k.Key == v.Key {
			fmt.Printf("KNOWN-FINDING: property=%s %s\n", prop, k.Text)
			return 0
		}
	}
	fmt.Printf("%s violated: %s\n  %s\n  minimised history (%d instance(s), %d step(s)): %s\n", prop, v.Key, v.Detail,
		len(min.Instances), len(min.Steps), strings.Join(stepStrings(min.Steps), " "))
	for i, ic := range min.Instances {
		if prop == "C20" {
			fmt.Printf("  instance #%d: NewGenerator(%d,%d)\n", i, ic.Min, ic.Max)
		} else {
			fmt.Printf("  instance #%d: start overflow=%#x sqn=%#x\n", i, ic.O, ic.S)
		}
	}
	fmt.Printf("VIOLATION property=%s replay=%s\n", prop, path)
	return 1
}

func main() {
	if len(os.Args) < 2 {
		fmt.Fprintln(os.Stderr, "usage: histcheck c11|c20 [-tier quick|thorough] [-replay file]")
		os.Exit(2)
	}
	sub := os.Args[1]
	fs := flag.NewFlagSet(sub, flag.ExitOnError)
	tier := fs.String("tier", "", "quick|thorough (default: $VERIF_TIER or quick)")
	replay := fs.String("replay", "", "replay a history file")
	child := fs.Bool("child", false, "internal: replay child")
	rangeArg := fs.String("range", "", "internal: worker process, histories a:b")
	outFile := fs.String("outfile", "", "internal: worker result file")
	fs.Parse(os.Args[2:])
	if *tier == "" {
		*tier = os.Getenv("VERIF_TIER")
	}
	if *tier != "thorough" {
		*tier = "quick"
	}
	seed := seedFromEnv()
	var run func(History) *Viol
	var prop string
	var eng *engine
	switch sub {
	case "c11":
		run, prop, eng = runC11, "C11", c11Engine
	case "c20":
		run, prop, eng = runC20, "C20", c20Engine
	default:
		fmt.Fprintln(os.Stderr, "histcheck: unknown property", sub)
		os.Exit(2)
	}
	if *rangeArg != "" {
		a, b, ok := parseRange(*rangeArg)
		if !ok || *outFile == "" {
			fmt.Fprintln(os.Stderr, "histcheck: bad -range / -outfile")
			os.Exit(2)
		}
		eng.childRange(seed, *tier, a, b, *outFile)
		os.Exit(0)
	}
	if *replay != "" {
		h := readHistory(*replay)
		if h.Property != "" && h.Property != prop {
			fmt.Fprintf(os.Stderr, "histcheck: %s is a %s history\n", *replay, h.Property)
			os.Exit(2)
		}
		v := eng.replayHistory(h)
		if v == nil {
			fmt.Printf("replay %s: property %s holds on this history\n", *replay, prop)
			os.Exit(0)
		}
		fmt.Printf("REPLAY-VIOLATION key=%s step=%d %s\n", v.Key, v.Step, v.Detail)
		if !*child {
			fmt.Printf("VIOLATION property=%s replay=%s\n", prop, *replay)
		}
		os.Exit(1)
	}
	fmt.Printf("histcheck %s tier=%s VERIF_SEED=%d\n", sub, *tier, seed)
	// regression histories first: minimised histories of repaired defects, kept in
	// /verif/regress; a "fixed:" entry in known_findings.txt suppresses nothing, so a
	// defect that returns is reported from here at once
	if ms, _ := filepath.Glob(filepath.Join(verifDir(), "regress", prop+"-*.json")); len(ms) > 0 {
		for _, m := range ms {
			h := readHistory(m)
			if v := run(h); v != nil {
				known := false
				for _, k := range loadKnown(prop) {
					if k.Key == v.Key {
						known = true
					}
				}
				if known {
					continue
				}
				fmt.Printf("%s violated (regression history %s): %s\n  %s\n", prop, filepath.Base(m), v.Key, v.Detail)
				fmt.Printf("VIOLATION property=%s replay=%s\n", prop, m)
				os.Exit(1)
			}
		}
		fmt.Printf("%d regression histories hold\n", len(ms))
	}
	var rc int
	switch sub {
	case "c11":
		rc = checkC11(*tier, seed)
	case "c20":
		rc = checkC20(*tier, seed)
	}
	if rc == 0 {
		fmt.Printf("%s held on everything explored\n", prop)
	}
	os.Exit(rc)
}
