package main

import (
	"encoding/binary"
	"encoding/json"
	"fmt"
	"os"
	"os/exec"
	"path/filepath"
	"runtime"
	"sort"
	"strings"
	"sync"
	"time"
)

// The exploration is spread over worker PROCESSES, each executing a contiguous
// range of history indices sequentially on one goroutine. Goroutines in one
// process would share whatever package-level state a change to the library may
// introduce (a "last value" cache, a table shared between allocator instances):
// histories would then disturb each other in a way no replay file could
// reproduce. With sequential workers every execution is a pure function of
// (seed, tier, first index of the range, index), and a failure that depends on
// the histories before it replays exactly by re-running that prefix.

type engine struct {
	prop, sub string
	total     func(tier string) uint64
	// gen builds history idx; nontrivial / key feed the evidence counters
	gen func(seed, idx uint64, tier string) (h History, nontrivial bool, key uint64, class []string)
	run func(h History, pg *progress) *Viol
	// normalise may rewrite a failing history into an equivalent, better shrinkable one
	normalise  func(h History) History
	shrinkArgs func(Step) []Step
}

type rangeOut struct {
	From       uint64            `json:"from"`
	To         uint64            `json:"to"`
	Histories  uint64            `json:"histories"`
	Steps      uint64            `json:"steps"`
	Nontrivial uint64            `json:"nontrivial"`
	Classes    map[string]uint64 `json:"classes"`
	Fail       *History          `json:"fail,omitempty"`
	Known      []History         `json:"known,omitempty"`
	Samples    []History         `json:"samples,omitempty"`
	Hang       *History          `json:"hang,omitempty"`
}

// childRange is the worker: histories [from,to) in order, on this goroutine.
func (e *engine) childRange(seed uint64, tier string, from, to uint64, outPath string) {
	known := map[string]bool{}
	for _, k := range loadKnown(e.prop) {
		known[k.Key] = true
	}
	out := rangeOut{From: from, To: to, Classes: map[string]uint64{}}
	keys := make([]uint64, 0, 1024)
	pg := &progress{}
	flush := func() {
		b, _ := json.Marshal(&out)
		os.WriteFile(outPath, b, 0o644)
		kb := make([]byte, 8*len(keys))
		for i, k := range keys {
			binary.LittleEndian.PutUint64(kb[8*i:], k)
		}
		os.WriteFile(outPath+".keys", kb, 0o644)
	}
	// watchdog: a library call that does not return within 5 s
	go func() {
		for {
			time.Sleep(500 * time.Millisecond)
			b := pg.busy.Load()
			if b != 0 && time.Now().UnixNano()-b > int64(5*time.Second) {
				h, _, _, _ := e.gen(seed, pg.index.Load(), tier)
				st := int(pg.step.Load())
				op := "call"
				if st < len(h.Steps) {
					op = h.Steps[st].Op
					h.Steps = h.Steps[:st+1]
					h.Drain = false
				} else if e.prop == "C20" {
					op = "Allocate"
				}
				h.Violation = &Viol{Key: e.prop + ":" + op + "/no-return", Step: st, Detail: "library call did not return within 5 s"}
				out.Hang = &h
				flush()
				os.Exit(3)
			}
		}
	}()
	for idx := from; idx < to; idx++ {
		h, nt, key, class := e.gen(seed, idx, tier)
		pg.index.Store(idx)
		out.Histories++
		out.Steps += uint64(len(h.Steps))
		for _, c := range class {
			out.Classes[c]++
			if c == "deep_churn" {
				// a Churn step stands for A checked operations
				for _, s := range h.Steps {
					if s.Op == "Churn" {
						out.Steps += uint64(s.A) - 1
					}
				}
			}
		}
		if nt {
			out.Nontrivial++
			keys = append(keys, key)
		}
		if v := e.run(h, pg); v != nil {
			h.Steps = append([]Step(nil), h.Steps...)
			h.Violation = v
			if known[v.Key] {
				if len(out.Known) < 8 {
					out.Known = append(out.Known, h)
				}
				continue
			}
			out.Fail = &h
			break
		}
		if nt && len(out.Samples) < 2 && len(h.Steps) <= 24 && (idx-from)%97 == 3 {
			h.Steps = append([]Step(nil), h.Steps...)
			out.Samples = append(out.Samples, h)
		}
	}
	flush()
}

type explored struct {
	histories, steps, nontrivial uint64
	distinct                     int
	classes                      map[string]uint64
	samples                      []History
	knownHits                    map[string]History
	fail                         *History
	failRange                    [2]uint64
	hang                         *History
	processes                    int
}

// explore runs the worker processes and merges their results.
func (e *engine) explore(seed uint64, tier string) explored {
	total := e.total(tier)
	workers := runtime.NumCPU()
	nchunks := uint64(workers * 4)
	if total < nchunks*64 {
		nchunks = uint64(workers)
	}
	if nchunks == 0 {
		nchunks = 1
	}
	scratch, err := os.MkdirTemp(os.Getenv("TMPDIR"), "verif-hist-run.")
	if err != nil {
		scratch, err = os.MkdirTemp("/var/tmp", "verif-hist-run.")
	}
	if err != nil {
		fmt.Fprintln(os.Stderr, "histcheck: scratch:", err)
		os.Exit(2)
	}
	defer os.RemoveAll(scratch)
	type job struct{ from, to uint64 }
	var jobs []job
	per := (total + nchunks - 1) / nchunks
	for a := uint64(0); a < total; a += per {
		b := a + per
		if b > total {
			b = total
		}
		jobs = append(jobs, job{a, b})
	}
	outs := make([]*rangeOut, len(jobs))
	errs := make([]string, len(jobs))
	ch := make(chan int, len(jobs))
	for i := range jobs {
		ch <- i
	}
	close(ch)
	var wg sync.WaitGroup
	for w := 0; w < workers; w++ {
		wg.Add(1)
		go func() {
			defer wg.Done()
			for i := range ch {
				of := filepath.Join(scratch, fmt.Sprintf("r%d.json", i))
				cmd := exec.Command(os.Args[0], e.sub, "-tier", tier, "-range", fmt.Sprintf("%d:%d", jobs[i].from, jobs[i].to), "-outfile", of)
				cmd.Env = append(os.Environ(), "GOMAXPROCS=2")
				cmd.Stderr = os.Stderr
				rerr := cmd.Run()
				b, ferr := os.ReadFile(of)
				if ferr != nil {
					errs[i] = fmt.Sprintf("worker for histories %d..%d produced no result: %v", jobs[i].from, jobs[i].to-1, rerr)
					continue
				}
				var ro rangeOut
				if json.Unmarshal(b, &ro) != nil {
					errs[i] = "worker result unreadable"
					continue
				}
				outs[i] = &ro
			}
		}()
	}
	wg.Wait()
	res := explored{classes: map[string]uint64{}, knownHits: map[string]History{}, processes: len(jobs)}
	var allKeys []uint64
	for i, ro := range outs {
		if ro == nil {
			fmt.Fprintln(os.Stderr, "histcheck:", errs[i])
			os.Exit(2)
		}
		res.histories += ro.Histories
		res.steps += ro.Steps
		res.nontrivial += ro.Nontrivial
		for k, v := range ro.Classes {
			res.classes[k] += v
		}
		if len(res.samples) < 4 {
			res.samples = append(res.samples, ro.Samples...)
		}
		for _, k := range ro.Known {
			if old, ok := res.knownHits[k.Violation.Key]; !ok || len(k.Steps) < len(old.Steps) {
				res.knownHits[k.Violation.Key] = k
			}
		}
		if ro.Fail != nil && (res.fail == nil || ro.Fail.Index < res.fail.Index) {
			res.fail = ro.Fail
			res.failRange = [2]uint64{jobs[i].from, jobs[i].to}
		}
		if ro.Hang != nil && res.hang == nil {
			res.hang = ro.Hang
			res.failRange = [2]uint64{jobs[i].from, jobs[i].to}
		}
		if kb, err := os.ReadFile(filepath.Join(scratch, fmt.Sprintf("r%d.json.keys", i))); err == nil {
			for o := 0; o+8 <= len(kb); o += 8 {
				allKeys = append(allKeys, binary.LittleEndian.Uint64(kb[o:]))
			}
		}
	}
	sort.Slice(allKeys, func(i, j int) bool { return allKeys[i] < allKeys[j] })
	for i, k := range allKeys {
		if i == 0 || k != allKeys[i-1] {
			res.distinct++
		}
	}
	return res
}

// Prelude: the histories that ran before the failing one in its worker process.
type Prelude struct {
	Tier string `json:"tier"`
	From uint64 `json:"from"`
	To   uint64 `json:"to"`
}

// confirm turns a failing history into a reported violation: minimise, replay in
// a fresh process; fall back to the unminimised history, then to the history with
// its prelude. Returns the exit code.
func (e *engine) confirm(fail History, rng [2]uint64, tier string, known []Known) int {
	orig := fail
	if e.normalise != nil {
		fail = e.normalise(fail)
	}
	runNoPg := func(h History) *Viol { return e.run(h, nil) }
	key := fail.Violation.Key
	min := shrink(fail, runNoPg, e.shrinkArgs)
	try := func(h History) bool {
		p := writeReplay(h, ".candidate-"+e.prop+".json")
		v := replayChild(e.sub, p)
		os.Remove(p)
		return v != nil && v.Key == h.Violation.Key
	}
	switch {
	case try(min):
		return report(e.prop, min, known, func(p string) *Viol { return replayChild(e.sub, p) })
	case try(fail):
		return report(e.prop, fail, known, func(p string) *Viol { return replayChild(e.sub, p) })
	case try(orig):
		return report(e.prop, orig, known, func(p string) *Viol { return replayChild(e.sub, p) })
	}
	// depends on what ran before it in its worker process: replay with that prefix
	withPre := orig
	withPre.Prelude = &Prelude{Tier: tier, From: rng[0], To: orig.Index}
	if try(withPre) {
		// shorten the prelude from the front while it still reproduces
		for withPre.Prelude.To-withPre.Prelude.From > 1 {
			c := withPre
			p := *withPre.Prelude
			p.From = p.From + (p.To-p.From+1)/2
			c.Prelude = &p
			if !try(c) {
				break
			}
			withPre = c
		}
		fmt.Printf("note: the failing history only fails after the %d histories that preceded it in its worker process (hidden state survives between independent objects); the replay file re-runs them first\n",
			withPre.Prelude.To-withPre.Prelude.From)
		return report(e.prop, withPre, known, func(p string) *Viol { return replayChild(e.sub, p) })
	}
	fmt.Fprintf(os.Stderr, "histcheck: violation %s of history %d does not reproduce in a fresh process, neither alone nor after its predecessors: machinery trouble, not reporting it\n", key, orig.Index)
	os.Exit(2)
	return 2
}

// replayHistory executes a replay file in this process (prelude first).
func (e *engine) replayHistory(h History) *Viol {
	if h.Prelude != nil {
		for idx := h.Prelude.From; idx < h.Prelude.To; idx++ {
			p, _, _, _ := e.gen(h.Seed, idx, h.Prelude.Tier)
			e.run(p, nil)
		}
	}
	return e.run(h, nil)
}

func histSamples(hs []History) []interface{} {
	var out []interface{}
	for _, h := range hs {
		out = append(out, map[string]interface{}{"index": h.Index, "instances": h.Instances, "steps": stepStrings(h.Steps), "obs": h.Obs, "drain": h.Drain})
	}
	return out
}

func parseRange(s string) (uint64, uint64, bool) {
	var a, b uint64
	p := strings.SplitN(s, ":", 2)
	if len(p) != 2 {
		return 0, 0, false
	}
	if _, err := fmt.Sscanf(p[0], "%d", &a); err != nil {
		return 0, 0, false
	}
	if _, err := fmt.Sscanf(p[1], "%d", &b); err != nil {
		return 0, 0, false
	}
	return a, b, true
}
