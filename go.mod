module verif

go 1.21

require github.com/free5gc/nas v0.0.0

replace github.com/free5gc/nas => /repo
