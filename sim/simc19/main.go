// Command simc19 is the simulation worker for property C19. It is compiled
// (with -race) inside the instrumented scratch copy of the repository.
package main

import (
	"bufio"
	"encoding/json"
	"flag"
	"fmt"
	"io"
	"log"
	"os"
	"runtime"
	"runtime/pprof"
	"strconv"
	"strings"
	"time"

	"github.com/free5gc/nas/logger"
	"github.com/free5gc/nas/zzverif/harness"
	"github.com/free5gc/nas/zzverif/vsimrt"
)

var (
	seed     = flag.Uint64("seed", 1, "VERIF_SEED")
	tier     = flag.String("tier", "quick", "quick|thorough")
	from     = flag.Uint64("from", 0, "first run index")
	to       = flag.Uint64("to", 0, "one past the last run index")
	stride   = flag.Uint64("stride", 1, "run every stride-th index starting at from")
	outPath  = flag.String("out", "", "JSONL output (default stdout)")
	replay   = flag.String("replay", "", "replay a plan file instead of generating runs")
	raceLog  = flag.String("racelog", "", "prefix given to GORACE=log_path")
	info     = flag.Bool("info", false, "print catalogue information and exit")
	withPlan = flag.Bool("plans", false, "include the executed plan in every record")
	procs    = flag.Int("procs", 0, "GOMAXPROCS (0 = leave)")
	indices  = flag.String("indices", "", "comma separated run indices (instead of -from/-to/-stride)")
	probeOut = flag.String("probe", "", "probe the corpus with the library under test, write the sample table here and exit")
	catFile  = flag.String("cat", "", "sample table written by -probe (the worker then executes no library code before its first run)")
	coldOrd  = flag.Bool("coldorder", false, "cold-order oracle: only the reverse-order sequential execution of each selected run, in this fresh process")
	coldFwd  = flag.Bool("coldfwd", false, "with -coldorder: execute in the original task order (control run of the cold-order oracle)")
	freeMode = flag.Bool("free", false, "free-running mode: the library starts goroutines or blocks on channels")
	planOnly = flag.Bool("planonly", false, "print the plans of the selected indices without executing them")
	cpuprof  = flag.String("cpuprofile", "", "write a CPU profile (development)")
)

type infoRec struct {
	Info        bool           `json:"info"`
	Sites       int            `json:"sites"`
	HotSites    int            `json:"hot_sites"`
	PanicSites  int            `json:"can_panic_sites"`
	Entries     int            `json:"catalogue_entries"`
	ByFam       map[string]int `json:"by_family"`
	Samples     int            `json:"corpus_samples"`
	OKSamples   int            `json:"corpus_decodable"`
	Skipped     []string       `json:"skipped"`
	NumFocusedQ int            `json:"focused_quick"`
	NumFocusedT int            `json:"focused_thorough"`
	GoVersion   string         `json:"go_version"`
	GroupsQ     [][2]int       `json:"groups_quick"` // [from,to) run index ranges that share one worker process
	GroupsT     [][2]int       `json:"groups_thorough"`
}

type covRec struct {
	Coverage bool        `json:"coverage"`
	N        int         `json:"n"`
	Sites    [][5]uint32 `json:"sites"` // site id, executions in simulation, co-visited, pre-emptions, executed in a baseline (only sites touched)
	WallS    float64     `json:"wall_s"`
	Runs     int         `json:"runs"`
}

func main() {
	flag.Parse()
	if *procs > 0 {
		runtime.GOMAXPROCS(*procs)
	}
	// the one real I/O edge of the library: its log sink. Stubbed.
	logger.GetLogger().SetOutput(io.Discard)
	log.SetOutput(io.Discard)

	if *cpuprof != "" {
		f, err := os.Create(*cpuprof)
		if err == nil {
			pprof.StartCPUProfile(f)
			defer pprof.StopCPUProfile()
		}
	}
	harness.FreeMode = *freeMode
	harness.ProbeFile = *catFile
	harness.InitHarness()
	if *probeOut != "" {
		harness.ProbeCosts()
		if err := harness.Cat.WriteProbe(*probeOut); err != nil {
			fmt.Fprintln(os.Stderr, "simc19:", err)
			os.Exit(2)
		}
		return
	}

	var w *bufio.Writer
	if *outPath != "" {
		f, err := os.Create(*outPath)
		if err != nil {
			fmt.Fprintln(os.Stderr, "simc19:", err)
			os.Exit(2)
		}
		defer f.Close()
		w = bufio.NewWriter(f)
	} else {
		w = bufio.NewWriter(os.Stdout)
	}
	defer w.Flush()
	emit := func(v interface{}) {
		b, err := json.Marshal(v)
		if err != nil {
			fmt.Fprintln(os.Stderr, "simc19: marshal:", err)
			os.Exit(2)
		}
		w.Write(b)
		w.WriteByte('\n')
		w.Flush()
	}

	if *info {
		c := harness.Cat
		ir := infoRec{Info: true, Sites: len(harness.SiteTab), Entries: len(c.Entries), ByFam: map[string]int{},
			Samples: len(c.Samples), OKSamples: len(c.OKSamples), Skipped: c.SortedSkipped(),
			NumFocusedQ: harness.NumFocused(harness.Tiers["quick"]), NumFocusedT: harness.NumFocused(harness.Tiers["thorough"]),
			GoVersion: runtime.Version(), GroupsQ: harness.FocusGroups(harness.Tiers["quick"]), GroupsT: harness.FocusGroups(harness.Tiers["thorough"])}
		for f, n := range c.ByFam {
			ir.ByFam[f] = len(n)
		}
		for _, s := range harness.SiteTab {
			if s[2]&vsimrt.FlagHot != 0 {
				ir.HotSites++
			}
			if s[2]&vsimrt.FlagCanPanic != 0 {
				ir.PanicSites++
			}
		}
		emit(ir)
		return
	}

	rl := harness.OpenRaceLog(*raceLog)
	start := time.Now()

	attach := func(rec *harness.Record) {
		for _, rr := range rl.Poll() {
			class := "race"
			if !rr.HasLib {
				class = "harness-race"
			}
			rec.Violations = append(rec.Violations, harness.Violation{
				Class: class, Key: rr.Key(),
				Detail: fmt.Sprintf("%s at %s (%s) / %s at %s (%s)\n%s", rr.KindA, rr.A, rr.FuncA, rr.KindB, rr.B, rr.FuncB, rr.Text),
				Task:   -1, Op: -1,
			})
		}
	}

	if *replay != "" {
		b, err := os.ReadFile(*replay)
		if err != nil {
			fmt.Fprintln(os.Stderr, "simc19:", err)
			os.Exit(2)
		}
		var p harness.Plan
		if err := json.Unmarshal(b, &p); err != nil {
			fmt.Fprintln(os.Stderr, "simc19: bad replay file:", err)
			os.Exit(2)
		}
		p.Violation = nil
		for _, idx := range p.Prelude {
			// the runs that preceded this one in its worker process (their effect on the
			// library's hidden state, if any, is part of what is being replayed)
			harness.ExecRun(harness.PlanRun(p.Seed, idx, p.Tier))
			rl.Poll()
		}
		rec := harness.ExecRun(&p)
		attach(rec)
		emit(rec)
		return
	}

	runs := 0
	var todo []uint64
	if *indices != "" {
		for _, f := range strings.Split(*indices, ",") {
			if v, err := strconv.ParseUint(strings.TrimSpace(f), 10, 64); err == nil {
				todo = append(todo, v)
			}
		}
	} else {
		for idx := *from; idx < *to; idx += *stride {
			todo = append(todo, idx)
		}
	}
	for _, idx := range todo {
		emit(map[string]uint64{"start": idx})
		p := harness.PlanRun(*seed, idx, *tier)
		if *planOnly {
			emit(p)
			continue
		}
		if *coldOrd {
			if p.Mode == "recycle" {
				continue
			}
			emit(harness.ColdOrderRun(p, !*coldFwd))
			runs++
			continue
		}
		rec := harness.ExecRun(p)
		attach(rec)
		if len(rec.Violations) == 0 && !*withPlan && !rec.Hang {
			rec.Plan = nil
		}
		emit(rec)
		runs++
	}
	cov := vsimrt.CoverageSnapshot()
	cr := covRec{Coverage: true, N: len(cov.Exec), WallS: time.Since(start).Seconds(), Runs: runs}
	for i := range cov.Exec {
		if cov.Exec[i] != 0 || cov.Base[i] != 0 {
			cr.Sites = append(cr.Sites, [5]uint32{uint32(i), cov.Exec[i], uint32(cov.Co[i]), cov.Pre[i], uint32(cov.Base[i])})
		}
	}
	emit(cr)
}
