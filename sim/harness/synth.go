package harness

import (
	"bytes"
	"fmt"
	"net"
	"reflect"
	"strings"
	"time"
	_ "time/tzdata"
)

// Value synthesis by reflection: parameter / field name first (pools of
// well-formed tokens), type otherwise. Deterministic in the Rng.

var (
	bytesBufferPtr = reflect.TypeOf((*bytes.Buffer)(nil))
	netIPType      = reflect.TypeOf(net.IP{})
	byteSliceType  = reflect.TypeOf([]byte(nil))
)

const hexDigits = "0123456789abcdef"

func (r *Rng) digits(n int) string {
	b := make([]byte, n)
	for i := range b {
		b[i] = byte('0' + r.Intn(10))
	}
	return string(b)
}

func (r *Rng) hex(n int) string {
	b := make([]byte, n)
	for i := range b {
		b[i] = hexDigits[r.Intn(16)]
	}
	return string(b)
}

func (r *Rng) mcc() string { return r.Pick([]string{"208", "001", "466", "310", "999", "262"}) }
func (r *Rng) mnc() string {
	return r.Pick([]string{"93", "01", "92", "410", "001", "99", "260"})
}

// realZones: loaded once on the main goroutine (the database is embedded through
// time/tzdata, so no system zoneinfo is needed).
var realZones []*time.Location

func init() {
	for _, n := range []string{"Europe/Berlin", "America/New_York", "Australia/Sydney", "Europe/Dublin", "Asia/Kolkata",
		"Pacific/Chatham", "America/St_Johns", "Asia/Taipei", "America/Sao_Paulo", "Africa/Casablanca", "Australia/Lord_Howe"} {
		if l, err := time.LoadLocation(n); err == nil {
			realZones = append(realZones, l)
		}
	}
}

var dnnPool = []string{"internet", "ims", "free5gc.org", "a", "internet.mnc093.mcc208.gprs", ""}
var namePool = []string{"free5GC", "Open5G", "", "a", "ABCDEFGH", "12345678", "network name with spaces", "free5GC-free5GC-free5GC-free5GC"}
var tzPool = []string{"+08:00", "-05:00", "+00:00", "+05:30", "-03:30", "+08:00+1", "-08:00+1", "+01:00+2", "+12:45", "-12:00"}
var unitPool = []string{"bps", "Kbps", "Mbps", "Gbps", "Tbps", "Pbps", "xbps"}

// randString draws a string for a parameter/field called name.
func (r *Rng) namedString(name string) string {
	n := strings.ToLower(name)
	if r.Chance(12) {
		// off-domain: exercises the error paths
		switch r.Intn(4) {
		case 0:
			return ""
		case 1:
			return string(r.Bytes(r.Intn(24)))
		case 2:
			return r.hex(r.Intn(30))
		default:
			return r.digits(r.Intn(24))
		}
	}
	switch {
	case strings.Contains(n, "guti"):
		p := r.mcc() + r.Pick([]string{"93", "01", "410", "001"})
		return p + r.hex(6) + r.hex(8)
	case strings.Contains(n, "amfid"):
		return r.hex(6)
	case strings.Contains(n, "suci"):
		return "suci-0-" + r.mcc() + "-" + r.mnc() + "-0-0-0-" + r.digits(10)
	case strings.Contains(n, "supi"), strings.Contains(n, "imsi"):
		return "imsi-" + r.mcc() + r.mnc() + r.digits(10)
	case strings.Contains(n, "pei"), strings.Contains(n, "imei"):
		if r.Bool() {
			return "imei-" + r.digits(15)
		}
		return "imeisv-" + r.digits(16)
	case n == "mcc":
		return r.mcc()
	case n == "mnc":
		return r.mnc()
	case n == "sd":
		if r.Chance(25) {
			return ""
		}
		return r.hex(6)
	case n == "tac":
		return r.hex(6)
	case strings.Contains(n, "timezone"), strings.Contains(n, "zone"):
		return r.Pick(tzPool)
	case strings.Contains(n, "dnn"):
		return r.Pick(dnnPool)
	case strings.Contains(n, "name"):
		return r.Pick(namePool)
	case n == "uplink", n == "downlink", strings.Contains(n, "ambr"), strings.Contains(n, "bitrate"):
		return fmt.Sprintf("%d %s", r.Intn(70000), r.Pick(unitPool))
	case strings.Contains(n, "mac"), strings.Contains(n, "counter"), strings.Contains(n, "packet"), strings.Contains(n, "hex"):
		return r.hex(2 * r.Intn(20))
	case strings.Contains(n, "ipv4"), strings.Contains(n, "addr"):
		return fmt.Sprintf("%d.%d.%d.%d", r.Intn(256), r.Intn(256), r.Intn(256), r.Intn(256))
	}
	switch r.Intn(5) {
	case 0:
		return r.hex(2 * r.Intn(12))
	case 1:
		return r.digits(r.Intn(20))
	case 2:
		return r.Pick(namePool)
	case 3:
		return r.Pick(tzPool)
	default:
		return r.Pick(dnnPool)
	}
}

func (r *Rng) boundaryUint(bits int) uint64 {
	max := uint64(1)<<uint(bits) - 1
	if bits >= 64 {
		max = ^uint64(0)
	}
	switch r.Intn(8) {
	case 0:
		return 0
	case 1:
		return 1
	case 2:
		return max
	case 3:
		return max - 1
	case 4:
		return max >> 1
	default:
		return r.U64() & max
	}
}

// sizeLike: integer parameters that drive allocation / loop length in the
// library (NEA1/NEA3/Zuc/GetKeyStream...) are never free integers.
func sizeLike(name string) bool {
	switch strings.ToLower(name) {
	case "length", "wlength", "n", "num", "size", "l", "blength":
		return true
	}
	return false
}

type synth struct {
	r       *Rng
	sibling int    // length in octets of the last []byte argument synthesised (for `length` parameters)
	ctx     string // lower-cased name of the function / method / struct type being filled (content hints)
}

func (s *synth) value(t reflect.Type, name string, depth int) (reflect.Value, bool) {
	r := s.r
	v := reflect.New(t).Elem()
	ln := strings.ToLower(name)
	switch t {
	case timeType:
		sec := int64(946684800 + r.Intn(3155760000)) // 2000..2099
		var loc *time.Location
		switch x := r.Intn(6); {
		case x == 0:
			loc = time.UTC
		case x <= 2 || len(realZones) == 0:
			q := r.Intn(113) - 56 // quarter hours
			loc = time.FixedZone("", q*900)
		default:
			// real tz-database zones: daylight saving, half-hour and 45-minute offsets
			loc = realZones[r.Intn(len(realZones))]
		}
		v.Set(reflect.ValueOf(time.Unix(sec, 0).In(loc)))
		return v, true
	case bytesBufferPtr:
		b := new(bytes.Buffer)
		if r.Chance(30) {
			b.Write(r.Bytes(r.Intn(16)))
		}
		v.Set(reflect.ValueOf(b))
		return v, true
	case netIPType:
		if r.Bool() {
			v.Set(reflect.ValueOf(net.IP(r.Bytes(4))))
		} else {
			v.Set(reflect.ValueOf(net.IP(r.Bytes(16))))
		}
		return v, true
	}
	switch t.Kind() {
	case reflect.Bool:
		v.SetBool(r.Bool())
	case reflect.Int, reflect.Int8, reflect.Int16, reflect.Int32, reflect.Int64:
		bits := t.Bits()
		switch {
		case sizeLike(ln):
			if ln == "length" && s.sibling >= 0 {
				x := int64(8*s.sibling - r.Intn(8))
				if x < 0 {
					x = 0
				}
				v.SetInt(x)
			} else {
				v.SetInt(int64(r.Intn(129)))
			}
		case strings.Contains(ln, "timer"):
			switch r.Intn(4) {
			case 0:
				v.SetInt(int64(r.Intn(70)) - 2)
			case 1:
				v.SetInt(int64(r.Intn(2000)))
			case 2:
				v.SetInt(int64(r.Intn(12000)))
			default:
				v.SetInt(int64(r.Intn(1200000)) - 10)
			}
		case strings.Contains(ln, "minvalue"), strings.Contains(ln, "maxvalue"), ln == "min", ln == "max":
			v.SetInt(int64(r.Intn(24)) - 4)
		case ln == "sst":
			v.SetInt(int64(r.Intn(256)))
		default:
			u := r.boundaryUint(bits)
			x := int64(u)
			if bits < 64 {
				x = int64(u) - int64(1)<<uint(bits-1)
			}
			if r.Chance(60) {
				x = int64(r.Intn(300))
			}
			v.SetInt(x)
		}
	case reflect.Uint, reflect.Uint8, reflect.Uint16, reflect.Uint32, reflect.Uint64, reflect.Uintptr:
		switch {
		case sizeLike(ln):
			if ln == "length" && s.sibling >= 0 {
				x := 8*s.sibling - r.Intn(8)
				if x < 0 {
					x = 0
				}
				v.SetUint(uint64(x))
			} else {
				v.SetUint(uint64(r.Intn(129)))
			}
		case strings.Contains(ln, "len") && r.Chance(85):
			// lengths of IE contents are small in practice; the interesting values sit
			// around allocator / encoding thresholds, not at 2^16-1
			lens := []uint64{0, 1, 2, 3, 4, 5, 7, 8, 9, 15, 16, 17, 24, 31, 32, 33, 48, 63, 64, 65, 100, 127, 128, 129, 200, 255, 256, 257, 300, 1000}
			x := lens[r.Intn(len(lens))]
			if r.Chance(30) {
				x = uint64(r.Intn(40))
			}
			if t.Bits() == 8 && x > 255 {
				x = 255
			}
			v.SetUint(x)
		case strings.HasPrefix(ln, "plmndigit") && r.Chance(85):
			// TS 24.008 PLMN octets: two BCD digits; the high nibble of octet 2 may be the filler 0xF
			hi := uint64(r.Intn(10))
			if ln == "plmndigit2" && r.Chance(50) {
				hi = 0xf
			}
			v.SetUint(hi<<4 | uint64(r.Intn(10)))
		case ln == "bearer" && r.Chance(85):
			v.SetUint(uint64(r.Intn(32)))
		case ln == "direction" && r.Chance(85):
			v.SetUint(uint64(r.Intn(2)))
		case ln == "algoid" && r.Chance(75):
			v.SetUint(uint64(r.Intn(4)))
		case len(RegConsts) > 0 && r.Chance(25):
			// one of the library's own exported constants (message types, IEIs, causes ...)
			max := uint64(1)<<uint(t.Bits()) - 1
			if t.Bits() >= 64 {
				max = ^uint64(0)
			}
			pool := RegConsts
			if t.Bits() == 16 && len(RegConsts16) > 0 && r.Chance(70) {
				pool = RegConsts16 // identifiers declared as 16-bit constants (PCO container ids ...)
			}
			c := pool[r.Intn(len(pool))]
			for tries := 0; c > max && tries < 4; tries++ {
				c = pool[r.Intn(len(pool))]
			}
			v.SetUint(c & max)
		default:
			v.SetUint(r.boundaryUint(t.Bits()))
		}
	case reflect.Float32, reflect.Float64:
		v.SetFloat(float64(r.Intn(1000000)) / 100)
	case reflect.String:
		v.SetString(r.namedString(name))
	case reflect.Slice:
		if r.Chance(6) {
			return v, true // nil slice
		}
		if t.Elem().Kind() == reflect.Uint8 {
			n := r.Len(300)
			if r.Chance(3) {
				n = 4000 + r.Intn(5200) // beyond a 4 KiB threshold (a costly operation is cut off by the yield budget)
			}
			if ln == "k" || ln == "iv" || ln == "key" || ln == "ck" || ln == "ik" {
				n = 16
			}
			b := r.Bytes(n)
			if sb, ok := semanticBytes(r, s.ctx+" "+ln); ok {
				b = sb
				n = len(b)
			}
			s.sibling = n
			bv := reflect.MakeSlice(t, n, n)
			reflect.Copy(bv, reflect.ValueOf(b))
			v.Set(bv)
			return v, true
		}
		if depth > 5 {
			return v, true
		}
		n := r.Intn(5)
		if r.Chance(5) && depth <= 2 {
			n = 8 + r.Intn(10) // more entries than the usual list limits (8 S-NSSAIs, 16 TAIs)
		}
		sv := reflect.MakeSlice(t, n, n)
		for i := 0; i < n; i++ {
			e, ok := s.value(t.Elem(), name, depth+1)
			if !ok {
				return v, false
			}
			sv.Index(i).Set(e)
		}
		v.Set(sv)
	case reflect.Array:
		if t.Elem().Kind() == reflect.Uint8 {
			b := r.Bytes(t.Len())
			reflect.Copy(v, reflect.ValueOf(b))
			return v, true
		}
		for i := 0; i < t.Len(); i++ {
			e, ok := s.value(t.Elem(), name, depth+1)
			if !ok {
				return v, false
			}
			v.Index(i).Set(e)
		}
	case reflect.Ptr:
		if depth > 6 || (depth > 0 && r.Chance(15)) {
			return v, true // nil
		}
		e, ok := s.value(t.Elem(), name, depth+1)
		if !ok {
			return v, false
		}
		p := reflect.New(t.Elem())
		p.Elem().Set(e)
		v.Set(p)
	case reflect.Struct:
		s.fillStruct(v, depth)
	case reflect.Map:
		if depth > 4 {
			return v, true
		}
		m := reflect.MakeMap(t)
		n := r.Intn(3)
		for i := 0; i < n; i++ {
			k, ok1 := s.value(t.Key(), name, depth+1)
			e, ok2 := s.value(t.Elem(), name, depth+1)
			if !ok1 || !ok2 {
				return v, false
			}
			m.SetMapIndex(k, e)
		}
		v.Set(m)
	case reflect.Interface:
		if t == errorType || t.NumMethod() == 0 {
			return v, true // nil interface
		}
		if Cat == nil || depth > 5 {
			return v, Cat != nil
		}
		impl := Cat.implementers(t)
		if len(impl) == 0 {
			return v, false
		}
		it := RegTypes[impl[r.Intn(len(impl))]].T
		e, ok := s.value(it, name, depth+1)
		if !ok {
			return v, false
		}
		p := reflect.New(it)
		p.Elem().Set(e)
		v.Set(p)
	default: // func, chan, unsafe pointer
		return v, false
	}
	return v, true
}

// fillStruct fills the exported fields; unexported ones keep their zero value.
func (s *synth) fillStruct(v reflect.Value, depth int) {
	t := v.Type()
	if t.Name() != "" {
		saved := s.ctx
		s.ctx = strings.ToLower(t.Name())
		defer func() { s.ctx = saved }()
	}
	for i := 0; i < t.NumField(); i++ {
		f := t.Field(i)
		if f.PkgPath != "" && !f.Anonymous {
			continue
		}
		fv := v.Field(i)
		if !fv.CanSet() {
			continue
		}
		if depth > 7 {
			continue
		}
		e, ok := s.value(f.Type, f.Name, depth+1)
		if ok {
			fv.Set(e)
		}
	}
	// information elements: keep Len consistent with Buffer most of the time
	lenF := directField(v, "Len")
	bufF := directField(v, "Buffer")
	if lenF.IsValid() && bufF.IsValid() && bufF.Kind() == reflect.Slice && lenF.CanSet() && s.r.Chance(80) {
		switch lenF.Kind() {
		case reflect.Uint8:
			if bufF.Len() > 255 {
				bufF.Set(bufF.Slice(0, 255))
			}
			lenF.SetUint(uint64(bufF.Len()))
		case reflect.Uint16:
			lenF.SetUint(uint64(bufF.Len()))
		}
	}
}

// SynthArgs builds the argument list of a function type. ok=false: a
// parameter type cannot be synthesised (func, chan, non-empty interface).
func SynthArgs(r *Rng, ft reflect.Type, names []string, skipFirst int, ctx ...string) ([]reflect.Value, bool) {
	s := &synth{r: r, sibling: -1}
	if len(ctx) > 0 {
		s.ctx = strings.ToLower(ctx[0])
	}
	var out []reflect.Value
	for i := skipFirst; i < ft.NumIn(); i++ {
		name := ""
		if j := i - skipFirst; j < len(names) {
			name = names[j]
		}
		pt := ft.In(i)
		if ft.IsVariadic() && i == ft.NumIn()-1 {
			// variadic tail: 0..2 elements
			n := r.Intn(3)
			for k := 0; k < n; k++ {
				v, ok := s.value(pt.Elem(), name, 0)
				if !ok {
					return nil, false
				}
				out = append(out, v)
			}
			continue
		}
		v, ok := s.value(pt, name, 0)
		if !ok {
			return nil, false
		}
		out = append(out, v)
	}
	return out, true
}

// SynthValue builds one value of type t.
func SynthValue(r *Rng, t reflect.Type, name string) (reflect.Value, bool) {
	s := &synth{r: r, sibling: -1}
	return s.value(t, name, 0)
}

// directField returns the field called name declared directly in the struct
// (reflect's FieldByName walks through embedded pointers and panics on nil).
func directField(v reflect.Value, name string) reflect.Value {
	if v.Kind() != reflect.Struct {
		return reflect.Value{}
	}
	t := v.Type()
	for i := 0; i < t.NumField(); i++ {
		if t.Field(i).Name == name {
			return v.Field(i)
		}
	}
	return reflect.Value{}
}

// ---- semantically well-formed IE contents ----

func bcd(digits string) []byte {
	var out []byte
	for i := 0; i < len(digits); i += 2 {
		lo := digits[i] - '0'
		hi := byte(0xf)
		if i+1 < len(digits) {
			hi = digits[i+1] - '0'
		}
		out = append(out, hi<<4|lo)
	}
	return out
}

func plmnBytes(r *Rng) []byte {
	mcc, mnc := r.mcc(), r.mnc()
	d3 := byte(0xf)
	if len(mnc) == 3 {
		d3 = mnc[2] - '0'
	}
	return []byte{(mcc[1]-'0')<<4 | (mcc[0] - '0'), d3<<4 | (mcc[2] - '0'), (mnc[1]-'0')<<4 | (mnc[0] - '0')}
}

// mobileIdentityBytes: the value part of a 5GS mobile identity (TS 24.501 9.11.3.4).
func mobileIdentityBytes(r *Rng, want string) []byte {
	kinds := []string{"suci", "suci", "suci", "suci", "nai", "guti", "guti", "imei", "imeisv", "tmsi", "none"}
	k := kinds[r.Intn(len(kinds))]
	switch {
	case strings.Contains(want, "guti"):
		k = "guti"
	case strings.Contains(want, "pei"), strings.Contains(want, "imei"):
		k = []string{"imei", "imeisv"}[r.Intn(2)]
	case strings.Contains(want, "nai"):
		k = "nai"
	case strings.Contains(want, "suci"):
		k = []string{"suci", "suci", "nai"}[r.Intn(3)]
	case strings.Contains(want, "tmsi"):
		k = "tmsi"
	}
	switch k {
	case "suci":
		b := []byte{0x01}
		b = append(b, plmnBytes(r)...)
		b = append(b, []byte{0xf0, 0xff}...) // routing indicator 0
		if r.Chance(30) {
			b[4], b[5] = byte(r.Intn(10))|0x10*byte(r.Intn(10)), 0xff
		}
		scheme := byte(0)
		if r.Chance(30) {
			scheme = byte(1 + r.Intn(2))
		}
		b = append(b, scheme, byte(r.Intn(4)))
		if scheme == 0 {
			b = append(b, bcd(r.digits(8+r.Intn(3)))...)
		} else {
			b = append(b, r.Bytes(20+r.Intn(30))...)
		}
		return b
	case "nai":
		return append([]byte{0x11}, []byte("type0.rid0.schid0.userid"+r.digits(6)+"@example.com")...)
	case "guti":
		b := []byte{0xf2}
		b = append(b, plmnBytes(r)...)
		b = append(b, r.Bytes(7)...)
		return b
	case "imei":
		d := r.digits(15)
		b := []byte{(d[0]-'0')<<4 | 0x08 | 0x03}
		return append(b, bcd(d[1:])...)
	case "imeisv":
		d := r.digits(16)
		b := []byte{(d[0]-'0')<<4 | 0x05}
		return append(b, bcd(d[1:])...)
	case "tmsi":
		return append([]byte{0xf4}, r.Bytes(6)...)
	}
	return []byte{0x00}
}

func snssaiBytes(r *Rng) []byte {
	switch r.Intn(4) {
	case 0:
		return []byte{1, byte(r.Intn(256))}
	case 1:
		return append([]byte{4, byte(r.Intn(256))}, r.Bytes(3)...)
	case 2:
		return append([]byte{5, byte(r.Intn(256))}, r.Bytes(4)...)
	default:
		return append([]byte{8, byte(r.Intn(256))}, r.Bytes(7)...)
	}
}

func dnnBytes(r *Rng) []byte {
	name := r.Pick([]string{"internet", "ims", "free5gc.org", "internet.mnc093.mcc208.gprs", "IMS", "a.b.c.d.e", "x"})
	if r.Chance(15) {
		// network identifier + operator identifier with other digits
		name = fmt.Sprintf("%s.mnc%03d.mcc%03d.gprs", r.Pick([]string{"internet", "ims", "iot"}), r.Intn(1000), r.Intn(1000))
	}
	if r.Chance(4) {
		name = strings.Repeat("w", 63) // longest label
	}
	var b []byte
	for _, l := range strings.Split(name, ".") {
		b = append(b, byte(len(l)))
		b = append(b, l...)
	}
	// legal but unusual encodings of the same name: the RFC 1035 root label at the end
	// (some UEs send it), once or twice
	if r.Chance(20) {
		b = append(b, 0)
		if r.Chance(25) {
			b = append(b, 0)
		}
	}
	return b
}

// semanticBytes returns well-formed contents for byte-string parameters and
// IE buffers whose name (or whose function / type name) says what they hold.
// ok=false: no opinion (the caller keeps its random bytes). Well-formed contents
// are what drives the library past its length and type checks into the code
// that real traffic executes; a third of the time random bytes are kept.
func semanticBytes(r *Rng, hint string) ([]byte, bool) {
	if r.Chance(30) {
		return nil, false
	}
	has := func(ss ...string) bool {
		for _, x := range ss {
			if strings.Contains(hint, x) {
				return true
			}
		}
		return false
	}
	switch {
	case has("mobileidentity", "suci", "guti", "peito", "imei", "tmsi", "naito", "additionalguti"):
		return mobileIdentityBytes(r, hint), true
	case has("plmn"):
		return plmnBytes(r), true
	case has("nssai"):
		var b []byte
		for i := 0; i < 1+r.Intn(4); i++ {
			b = append(b, snssaiBytes(r)...)
		}
		if has("snssai") && !has("nssaito") {
			return snssaiBytes(r)[1:], true
		}
		return b, true
	case has("ladn"):
		var b []byte
		for i := 0; i < 1+r.Intn(3); i++ {
			d := dnnBytes(r)
			b = append(b, byte(len(d)))
			b = append(b, d...)
			if !has("indication", "tomodels") {
				b = append(b, 7, 0x00)
				b = append(b, plmnBytes(r)...)
				b = append(b, r.Bytes(3)...)
			}
		}
		return b, true
	case has("dnn"):
		return dnnBytes(r), true
	case has("psi", "pdusessionstatus", "uplinkdatastatus", "allowedpdusessionstatus"):
		return r.Bytes(2), true
	case has("uesecuritycapability"):
		return r.Bytes(2 + 2*r.Intn(4)), true
	case has("upuack"):
		return append([]byte{0x01}, r.Bytes(16)...), true
	case has("protocolconfigurationoptions", "pco"):
		// configuration protocol octet, then units: 16-bit identifier (mostly one of the
		// identifiers the library itself declares as 16-bit constants), length, contents
		b := []byte{0x80}
		for i := 0; i < 1+r.Intn(4); i++ {
			id := uint16(r.U64())
			if len(RegConsts16) > 0 && r.Chance(80) {
				id = uint16(RegConsts16[r.Intn(len(RegConsts16))])
			}
			n := []int{0, 0, 2, 4, 4, 16, 1 + r.Intn(12)}[r.Intn(7)]
			b = append(b, byte(id>>8), byte(id), byte(n))
			b = append(b, r.Bytes(n)...)
		}
		return b, true
	case has("tailist", "trackingarea"):
		b := []byte{byte(r.Intn(3))}
		b = append(b, plmnBytes(r)...)
		for i := 0; i <= int(b[0]); i++ {
			b = append(b, r.Bytes(3)...)
		}
		return b, true
	}
	return nil, false
}
