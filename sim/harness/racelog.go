package harness

import (
	"fmt"
	"os"
	"regexp"
	"sort"
	"strings"
)

// RaceLog follows the race detector's log file (GORACE=log_path=<prefix>,
// the runtime appends ".<pid>") and attributes new reports to the run that
// has just finished.
type RaceLog struct {
	path string
	off  int64
}

func OpenRaceLog(prefix string) *RaceLog {
	if prefix == "" {
		return nil
	}
	return &RaceLog{path: fmt.Sprintf("%s.%d", prefix, os.Getpid())}
}

type RaceReport struct {
	A, B   string // top library frame (file:line) of each access, "" if none
	FuncA  string
	FuncB  string
	KindA  string
	KindB  string
	Text   string
	HasLib bool
}

var (
	accessRe = regexp.MustCompile(`^(Previous )?((?i:atomic )?(?i:read|write)) at 0x[0-9a-f]+ by (main )?goroutine`)
	frameRe  = regexp.MustCompile(`^\s+(\S+):(\d+)( \+0x[0-9a-f]+)?$`)
)

const modPrefix = "github.com/free5gc/nas/"

func libFrame(file string) (string, bool) {
	i := strings.Index(file, modPrefix)
	if i < 0 {
		return "", false
	}
	rel := file[i+len(modPrefix):]
	if strings.HasPrefix(rel, "zzverif/") {
		return "", false
	}
	return rel, true
}

// Poll returns the reports appended since the last call.
func (l *RaceLog) Poll() []RaceReport {
	if l == nil {
		return nil
	}
	f, err := os.Open(l.path)
	if err != nil {
		return nil
	}
	defer f.Close()
	st, err := f.Stat()
	if err != nil || st.Size() <= l.off {
		return nil
	}
	buf := make([]byte, st.Size()-l.off)
	n, _ := f.ReadAt(buf, l.off)
	l.off += int64(n)
	return ParseRaceReports(string(buf[:n]))
}

func ParseRaceReports(text string) []RaceReport {
	var out []RaceReport
	for _, blk := range strings.Split(text, "==================") {
		if !strings.Contains(blk, "WARNING: DATA RACE") {
			continue
		}
		rep := RaceReport{Text: strings.TrimSpace(blk)}
		lines := strings.Split(blk, "\n")
		stack := -1 // 0: first access, 1: second access, -1: elsewhere
		var lastFunc string
		for _, ln := range lines {
			t := strings.TrimSpace(ln)
			if m := accessRe.FindStringSubmatch(t); m != nil {
				stack++
				if stack == 0 {
					rep.KindA = strings.ToLower(m[2])
				} else if stack == 1 {
					rep.KindB = strings.ToLower(m[2])
				}
				continue
			}
			if strings.HasPrefix(t, "Goroutine ") || t == "" {
				if t != "" {
					stack = 2
				}
				continue
			}
			if stack != 0 && stack != 1 {
				continue
			}
			if m := frameRe.FindStringSubmatch(ln); m != nil {
				if rel, ok := libFrame(m[1]); ok {
					loc := rel + ":" + m[2]
					if stack == 0 && rep.A == "" {
						rep.A, rep.FuncA = loc, lastFunc
					}
					if stack == 1 && rep.B == "" {
						rep.B, rep.FuncB = loc, lastFunc
					}
				}
				continue
			}
			lastFunc = t
			if strings.Contains(t, "harness.scribbleSpare") {
				// the harness writing into the capacity beyond the length of a slice the
				// library returned (what append does in place): the memory is the library's
				const loc = "<capacity beyond the length of a returned slice>"
				if stack == 0 && rep.A == "" {
					rep.A, rep.FuncA = loc, "append in place by the caller"
				}
				if stack == 1 && rep.B == "" {
					rep.B, rep.FuncB = loc, "append in place by the caller"
				}
			}
		}
		rep.HasLib = rep.A != "" || rep.B != ""
		out = append(out, rep)
	}
	return out
}

// Key is the stable identity of a race: the unordered pair of library
// locations.
func (r RaceReport) Key() string {
	a, b := r.A, r.B
	if a == "" {
		a = "<outside library>"
	}
	if b == "" {
		b = "<outside library>"
	}
	p := []string{a, b}
	sort.Strings(p)
	return "race:" + p[0] + "|" + p[1]
}
