package harness

// Rng is a splitmix64 stream. Everything the harness decides is drawn from
// streams derived from the run seed; nothing reads a clock or the global rand.
type Rng struct{ s uint64 }

func NewRng(seed uint64) *Rng { return &Rng{s: seed} }

func Mix(a, b uint64) uint64 {
	x := a ^ (b+0x9e3779b97f4a7c15)*0xbf58476d1ce4e5b9
	x ^= x >> 31
	x *= 0x94d049bb133111eb
	x ^= x >> 29
	return x
}

func (r *Rng) U64() uint64 {
	r.s += 0x9e3779b97f4a7c15
	z := r.s
	z = (z ^ (z >> 30)) * 0xbf58476d1ce4e5b9
	z = (z ^ (z >> 27)) * 0x94d049bb133111eb
	return z ^ (z >> 31)
}

func (r *Rng) Intn(n int) int {
	if n <= 1 {
		return 0
	}
	return int(r.U64() % uint64(n))
}

func (r *Rng) Bool() bool        { return r.U64()&1 == 1 }
func (r *Rng) Chance(p int) bool { return r.Intn(100) < p } // p percent

func (r *Rng) Bytes(n int) []byte {
	b := make([]byte, n)
	for i := 0; i < n; i += 8 {
		x := r.U64()
		for j := 0; j < 8 && i+j < n; j++ {
			b[i+j] = byte(x >> (8 * uint(j)))
		}
	}
	return b
}

func (r *Rng) Pick(ss []string) string { return ss[r.Intn(len(ss))] }

// Fork derives an independent stream.
func (r *Rng) Fork() *Rng { return &Rng{s: Mix(r.U64(), 0x1234567)} }

// Len draws a small length with a bias to boundary sizes.
func (r *Rng) Len(max int) int {
	switch r.Intn(10) {
	case 0:
		return 0
	case 1:
		return 1
	case 2:
		return max
	case 3, 4, 5:
		return r.Intn(9)
	default:
		return r.Intn(max + 1)
	}
}
