package harness

import (
	"encoding/hex"
	"fmt"
	"reflect"
	"sort"
	"strconv"
	"strings"
	"time"
)

// Dump writes a canonical, address-free textual form of v: equal values give
// equal text in any process. Maps are written in sorted key order; pointers
// are followed (cycle-safe) and never printed as addresses.

type dumper struct {
	b     strings.Builder
	seen  map[uintptr]int
	depth int
}

var (
	errorType = reflect.TypeOf((*error)(nil)).Elem()
	timeType  = reflect.TypeOf(time.Time{})
)

func DumpValues(vals ...interface{}) string {
	d := &dumper{seen: map[uintptr]int{}}
	for i, v := range vals {
		if i > 0 {
			d.b.WriteString(" | ")
		}
		if v == nil {
			d.b.WriteString("<nil>")
			continue
		}
		d.val(reflect.ValueOf(v))
	}
	return d.b.String()
}

func (d *dumper) val(v reflect.Value) {
	if !v.IsValid() {
		d.b.WriteString("<invalid>")
		return
	}
	d.depth++
	defer func() { d.depth-- }()
	if d.depth > 60 {
		d.b.WriteString("<deep>")
		return
	}
	t := v.Type()
	if t == timeType && v.CanInterface() {
		tm := v.Interface().(time.Time)
		_, off := tm.Zone()
		fmt.Fprintf(&d.b, "time(%d,%d)", tm.UnixNano(), off)
		return
	}
	if t.Implements(errorType) && v.CanInterface() && (v.Kind() != reflect.Ptr || !v.IsNil()) && v.Kind() != reflect.Interface {
		d.b.WriteString("error(")
		d.b.WriteString(strconv.Quote(safeErr(v.Interface().(error))))
		d.b.WriteString(")")
		return
	}
	switch v.Kind() {
	case reflect.Bool:
		if v.Bool() {
			d.b.WriteString("T")
		} else {
			d.b.WriteString("F")
		}
	case reflect.Int, reflect.Int8, reflect.Int16, reflect.Int32, reflect.Int64:
		d.b.WriteString(strconv.FormatInt(v.Int(), 10))
	case reflect.Uint, reflect.Uint8, reflect.Uint16, reflect.Uint32, reflect.Uint64, reflect.Uintptr:
		d.b.WriteString(strconv.FormatUint(v.Uint(), 10))
	case reflect.Float32, reflect.Float64:
		d.b.WriteString(strconv.FormatFloat(v.Float(), 'g', -1, 64))
	case reflect.Complex64, reflect.Complex128:
		fmt.Fprintf(&d.b, "%v", v.Complex())
	case reflect.String:
		d.b.WriteString(strconv.Quote(v.String()))
	case reflect.Slice:
		if v.IsNil() {
			d.b.WriteString("nil[]")
			return
		}
		fallthrough
	case reflect.Array:
		if t.Elem().Kind() == reflect.Uint8 {
			var raw []byte
			if v.Kind() == reflect.Slice {
				raw = v.Bytes()
			} else if v.CanAddr() {
				raw = v.Slice(0, v.Len()).Bytes()
			} else {
				raw = make([]byte, v.Len())
				reflect.Copy(reflect.ValueOf(raw), v)
			}
			d.b.WriteString("x'")
			d.b.WriteString(hex.EncodeToString(raw))
			d.b.WriteString("'")
			return
		}
		d.b.WriteString("[")
		for i := 0; i < v.Len(); i++ {
			if i > 0 {
				d.b.WriteString(",")
			}
			d.val(v.Index(i))
		}
		d.b.WriteString("]")
	case reflect.Map:
		if v.IsNil() {
			d.b.WriteString("nilmap")
			return
		}
		type kv struct{ k, v string }
		var items []kv
		it := v.MapRange()
		for it.Next() {
			kd := &dumper{seen: d.seen, depth: d.depth}
			kd.val(it.Key())
			vd := &dumper{seen: d.seen, depth: d.depth}
			vd.val(it.Value())
			items = append(items, kv{kd.b.String(), vd.b.String()})
		}
		sort.Slice(items, func(i, j int) bool { return items[i].k < items[j].k })
		d.b.WriteString("map{")
		for i, it := range items {
			if i > 0 {
				d.b.WriteString(",")
			}
			d.b.WriteString(it.k)
			d.b.WriteString(":")
			d.b.WriteString(it.v)
		}
		d.b.WriteString("}")
	case reflect.Ptr:
		if v.IsNil() {
			d.b.WriteString("nil")
			return
		}
		p := v.Pointer()
		if n, ok := d.seen[p]; ok && n > 0 {
			d.b.WriteString("<cycle>")
			return
		}
		d.seen[p]++
		d.b.WriteString("&")
		d.val(v.Elem())
		d.seen[p]--
	case reflect.Interface:
		if v.IsNil() {
			d.b.WriteString("nil")
			return
		}
		e := v.Elem()
		d.b.WriteString("(" + e.Type().String() + ")")
		d.val(e)
	case reflect.Struct:
		d.b.WriteString(t.Name())
		d.b.WriteString("{")
		for i := 0; i < v.NumField(); i++ {
			if i > 0 {
				d.b.WriteString(",")
			}
			d.b.WriteString(t.Field(i).Name)
			d.b.WriteString(":")
			d.val(v.Field(i))
		}
		d.b.WriteString("}")
	case reflect.Func:
		if v.IsNil() {
			d.b.WriteString("nilfunc")
		} else {
			d.b.WriteString("func")
		}
	case reflect.Chan, reflect.UnsafePointer:
		d.b.WriteString(t.String())
	default:
		d.b.WriteString("?" + v.Kind().String())
	}
}

func safeErr(e error) (s string) {
	defer func() {
		if r := recover(); r != nil {
			s = fmt.Sprintf("<Error() panicked: %v>", r)
		}
	}()
	return e.Error()
}

// Hash64 is FNV-1a over a string.
func Hash64(s string) uint64 {
	h := uint64(1469598103934665603)
	for i := 0; i < len(s); i++ {
		h = (h ^ uint64(s[i])) * 1099511628211
	}
	return h
}

func clip(s string, n int) string {
	if len(s) <= n {
		return s
	}
	return s[:n] + fmt.Sprintf("...(+%d)", len(s)-n)
}

// firstDiff describes where two dumps diverge.
func firstDiff(a, b string) string {
	n := len(a)
	if len(b) < n {
		n = len(b)
	}
	i := 0
	for i < n && a[i] == b[i] {
		i++
	}
	lo := i - 40
	if lo < 0 {
		lo = 0
	}
	ha, hb := i+60, i+60
	if ha > len(a) {
		ha = len(a)
	}
	if hb > len(b) {
		hb = len(b)
	}
	return fmt.Sprintf("at byte %d: expected ...%s  got ...%s", i, a[lo:ha], b[lo:hb])
}
