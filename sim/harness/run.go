package harness

import (
	"fmt"
	"sort"
	"strings"

	"github.com/free5gc/nas/zzverif/vsimrt"
)

type Seg struct {
	T int32 `json:"t"`
	N int64 `json:"n"`
}

type FaultSpec struct {
	Kind  string `json:"kind"` // abort | gc
	Task  int    `json:"task"`
	At    int64  `json:"at"`
	Slack int64  `json:"slack,omitempty"`
}

type SchedSpec struct {
	K         int     `json:"k"`                    // number of pre-emption points aimed at (0 = none)
	Exact     bool    `json:"exact"`                // PCT-style exact placement (else geometric gaps)
	HotBias   bool    `json:"hot_bias"`             // postpone a pre-emption to the next hot site
	HotOnly   int     `json:"hot_only,omitempty"`   // >0: pre-empt only at hot sites, each visit with this probability (percent)
	Stall     int     `json:"stall"`                // task id starved after its first pre-emption, -1 none
	StallFor  int     `json:"stall_for"`            // number of scheduling decisions
	StallSet  []int   `json:"stall_set,omitempty"`  // further tasks starved the same way (many-task runs)
	StallSkip int     `json:"stall_skip,omitempty"` // the starved task is frozen at its (n+1)-th pre-emption, not at its first
	LowPrio   int     `json:"low_prio"`             // task id only run when nothing else can, -1 none
	MeanGap   int64   `json:"mean_gap,omitempty"`
	Points    []int64 `json:"points,omitempty"` // the exact global yield indices drawn (informational; replay uses the schedule)
}

type Violation struct {
	Class  string `json:"class"` // race | diverge | order-dependence | panic-mismatch
	Key    string `json:"key"`
	Detail string `json:"detail"`
	Task   int    `json:"task"`
	Op     int    `json:"op"`
	Spec   string `json:"spec,omitempty"`
}

type Plan struct {
	Property   string      `json:"property"`
	TreeDigest string      `json:"tree_digest,omitempty"`
	Seed       uint64      `json:"seed"`
	Index      uint64      `json:"index"`
	RunSeed    uint64      `json:"run_seed"`
	Tier       string      `json:"tier"`
	Kind       string      `json:"kind"`
	Mode       string      `json:"mode"`
	Pick       int         `json:"pick"` // shared / recycle mode: index of the decodable corpus sample to start from (-1: drawn from the run seed)
	Tasks      [][]OpSpec  `json:"tasks"`
	Sched      SchedSpec   `json:"sched"`
	Faults     []FaultSpec `json:"faults"`
	Free       bool        `json:"free,omitempty"`        // free-running mode (library starts goroutines / blocks on channels): schedule not owned
	ColdFirst  bool        `json:"cold_first,omitempty"`  // simulate before any sequential baseline (lazy initialisation, memo tables and pools are met cold)
	PreWarm    *OpSpec     `json:"pre_warm,omitempty"`    // executed (sequentially, result discarded) before anything else of the run: a process that has already made many calls
	Prelude    []uint64    `json:"prelude,omitempty"`     // run indices executed (and discarded) before this plan on replay: the runs that preceded it in its worker process
	ReplayMode bool        `json:"replay_mode,omitempty"` // true => execute exactly the segments of Schedule (then id order)
	Schedule   []Seg       `json:"schedule,omitempty"`
	Violation  *Violation  `json:"violation,omitempty"`
	Note       string      `json:"note,omitempty"`
}

type Record struct {
	Index        uint64         `json:"index"`
	RunSeed      uint64         `json:"run_seed"`
	Kind         string         `json:"kind"`
	Shape        string         `json:"shape,omitempty"`     // entry | several_entries | many_tasks | warm | cool | pre_warm | victim (evidence only)
	Discarded    int            `json:"discarded,omitempty"` // discarded repetitions planned in this run (long-lived callers)
	Mode         string         `json:"mode"`
	NTasks       int            `json:"ntasks"`
	NOps         int            `json:"nops"`
	Fams         []string       `json:"fams"`
	K            int            `json:"k"`
	Yields       int64          `json:"yields"`
	Switches     int64          `json:"switches"`
	HotSwitches  int64          `json:"hot_switches"`
	StallSkips   int64          `json:"stall_skips"`
	SchedDigest  uint64         `json:"sched_digest"`
	ResultDigest uint64         `json:"result_digest"`
	Faults       map[string]int `json:"faults,omitempty"`
	Noisy        int            `json:"noisy,omitempty"`
	Masked       int            `json:"masked,omitempty"` // ops compared with address-like numbers masked
	ExpPanics    int            `json:"exp_panics,omitempty"`
	TooSlow      int            `json:"too_slow,omitempty"`
	Missing      int            `json:"missing,omitempty"`
	YieldDiffs   int            `json:"yield_diffs,omitempty"`
	Truncated    bool           `json:"truncated,omitempty"`
	Drift        bool           `json:"drift,omitempty"`
	Hang         bool           `json:"hang,omitempty"`
	Violations   []Violation    `json:"violations,omitempty"`
	Plan         *Plan          `json:"plan,omitempty"` // with the executed schedule, when there is a violation (or on request)
	Sample       string         `json:"sample,omitempty"`
	BaseDigests  [][]uint64     `json:"base_digests,omitempty"` // per task / operation: hash of the sequential outcome (0 = noisy, too slow or missing)
	NoisyOps     []string       `json:"noisy_ops,omitempty"`
	SlowOps      []string       `json:"slow_ops,omitempty"`
	NoisyDiff    string         `json:"noisy_diff,omitempty"`
}

const maxBaselineYields = 3000000

// simOpYieldCap cuts off an operation that runs away under simulation only
// (its baseline stayed below maxBaselineYields); the outcome then differs from
// the baseline and is reported as a divergence.
const simOpYieldCap = 4 * maxBaselineYields

// ---- planning ----

type Tier struct {
	GroupRounds int            // focused runs per package-level variable that two or more catalogue entries reach: those entries together in one run
	Warm        map[string]int // rounds of long-lived-caller runs (OpSpec.Warm) per family; "*" = every entry, "hot" = entries that reach a hot site
	WarmMax     int            // most discarded repetitions per task in such a run
	WarmYields  int            // yields of discarded repetitions per task aimed at
	HotRounds   int            // extra focused rounds for entries that executed a hot site in the probe step
	Many        map[string]int // rounds of many-task (9-24 tasks) focused runs per family
	PairRounds  int            // rounds over all pairs of "sec" entries
	Extra       map[string]int // additional focused rounds for small families that the property names explicitly
	Rounds      int            // focused private rounds over the whole catalogue
	Reps        int            // repetitions of each catalogue entry per task in the focused private runs
	Name        string
	MaxTasks    int
	Faults      bool
	ChunkSize   int
	NShared     int
	NRecycle    int
	NSharedIE   int // shared-read runs on synthesised values of every IE type (see SharedIEBase)
}

var Tiers = map[string]Tier{
	"quick":    {Name: "quick", GroupRounds: 8, Warm: map[string]int{"sec": 12, "fn": 1, "encode": 1, "decode": 1, "roundtrip": 1, "hist": 1, "accessors": 1, "hot": 3}, WarmMax: 5000, WarmYields: 1200000, HotRounds: 6, Many: map[string]int{"sec": 4, "roundtrip": 1, "hist": 1}, PairRounds: 1, Extra: map[string]int{"sec": 12, "roundtrip": 8, "hist": 4, "fn": 4, "chain": 2}, Rounds: 1, Reps: 6, MaxTasks: 8, Faults: true, ChunkSize: 1, NShared: 24, NRecycle: 24},
	"thorough": {Name: "thorough", GroupRounds: 64, Warm: map[string]int{"*": 1, "sec": 40, "fn": 2, "roundtrip": 2, "hot": 8}, WarmMax: 12000, WarmYields: 3000000, HotRounds: 24, Many: map[string]int{"sec": 12, "roundtrip": 4, "hist": 2, "fn": 1, "accessors": 1}, PairRounds: 6, Extra: map[string]int{"sec": 120, "roundtrip": 40, "hist": 20, "fn": 8, "accessors": 4, "chain": 8}, Rounds: 4, Reps: 8, MaxTasks: 64, Faults: true, ChunkSize: 1, NShared: 96, NRecycle: 96},
}

// NumFocused is the number of focused runs of a tier (they come first).
func NumFocused(t Tier) int {
	return len(focusList(t)) + t.NShared + t.NRecycle + t.NSharedIE
}

// FixTiers sizes the shared / recycle focused phases from the corpus: every
// decodable sample is the shared message (resp. the first packet) once per round.
func FixTiers() {
	for name, t := range Tiers {
		n := len(Cat.OKSamples)
		if n == 0 {
			n = 1
		}
		t.NShared = n * 3 * t.Rounds // the shared message is a different seeded variant of the sample in every round
		t.NRecycle = n * 2 * t.Rounds
		t.NSharedIE = len(SharedIETypes()) * t.Rounds
		Tiers[name] = t
	}
}

// FocusGroups: run index ranges that are executed by one worker process each.
// A focused private run gets a process of its own, except that the methods of one
// type share a process (1 802 method entries on the pinned tree, 270 types); the
// shared / recycle focused runs go in batches of 8, swarm runs are batched by the
// driver. Every group starts in a fresh process, i.e. with a cold library.
func FocusGroups(t Tier) [][2]int {
	fl := focusList(t)
	var out [][2]int
	typeOf := func(i int) string {
		if fl[i] >= pairBase {
			return ""
		}
		e := Cat.Entries[fl[i]]
		if e.Fam != "method" {
			return ""
		}
		if k := strings.LastIndex(e.Name, "."); k > 0 {
			return e.Name[:k]
		}
		return e.Name
	}
	for i := 0; i < len(fl); {
		j := i + 1
		if ty := typeOf(i); ty != "" {
			for j < len(fl) && typeOf(j) == ty && j-i < 24 {
				j++
			}
		}
		out = append(out, [2]int{i, j})
		i = j
	}
	base := len(fl)
	for i := 0; i < t.NShared+t.NRecycle+t.NSharedIE; i += 8 {
		j := i + 8
		if j > t.NShared+t.NRecycle+t.NSharedIE {
			j = t.NShared + t.NRecycle + t.NSharedIE
		}
		out = append(out, [2]int{base + i, base + j})
	}
	return out
}

// SharedIEBase + k as Plan.Pick: the shared value of a shared-mode run is not a
// decoded corpus sample but synthesised values of the k-th IE type.
const SharedIEBase = 1 << 20

var sharedIETypes []string

// SharedIETypes: the information-element types (package nasType) that have accessors -
// what a decoded message consists of. Other types with accessors (security.Count, the
// UE policy structures) are not part of "a shared decoded message": C19 does not
// promise that two goroutines may call their getters on one value (security.Count.Get
// does write its receiver: it re-applies the 24-bit mask), so they are not read
// concurrently here.
func SharedIETypes() []string {
	if sharedIETypes == nil {
		sharedIETypes = []string{}
		for _, n := range Cat.ByFam["accessors"] {
			if t := Cat.Types[n]; t != nil && isNasTypeIE(t.T) {
				sharedIETypes = append(sharedIETypes, n)
			}
		}
	}
	return sharedIETypes
}

// pair runs: two different entries of the "sec" family in one focused run (a call of
// one kind overlapping a call of another kind: ciphering while another task computes
// a MAC, NEA2 next to NIA2, ...). Encoded in the focus list as pairBase + a*4096 + b.
const pairBase = 1 << 24

// many-task runs: one entry, 9-32 tasks (slot pools, rings and sharded caches only
// misbehave when more callers are inside the library than they have slots).
// Encoded as manyBase + entry index.
const manyBase = 1 << 25

// long-lived-caller runs: one entry, 2-4 tasks, each of which calls it hundreds to
// thousands of times (results discarded, see OpSpec.Warm) before the recorded calls.
// Encoded as warmBase + entry index.
const warmBase = 1 << 26

// group runs: two to four DIFFERENT entries that reached the same package-level
// variable in the probe step, together in one focused run - hidden state that connects
// two kinds of calls (a decoder and a conversion helper, a setter and an encoder) only
// misbehaves when those two overlap, and random mixes of 3 000 entries almost never
// contain a given pair. Encoded as groupBase + variable index * 1024 + round.
const groupBase = 1 << 27

var varEntries map[int][]int

func entriesOfVar(v int) []int {
	if varEntries == nil {
		varEntries = map[int][]int{}
		for i, vs := range Cat.HotVars {
			for _, x := range vs {
				varEntries[x] = append(varEntries[x], i)
			}
		}
	}
	return varEntries[v]
}

func groupChoice(v, round int) []OpSpec {
	es := entriesOfVar(v)
	name := ""
	if v < len(HotVarNames) {
		name = HotVarNames[v]
	}
	r := NewRng(Mix(Hash64(name), uint64(round)))
	k := 2 + r.Intn(3)
	if len(es) <= 4 {
		k = len(es)
	}
	var out []OpSpec
	used := map[int]bool{}
	names := map[string]bool{}
	for tries := 0; len(out) < k && tries < 64; tries++ {
		i := es[r.Intn(len(es))]
		// (different kinds of calls: a second seed of the same function is what the
		// per-entry focused runs already do)
		if used[i] || (names[Cat.Entries[i].Name] && tries < 32) {
			continue
		}
		used[i], names[Cat.Entries[i].Name] = true, true
		out = append(out, Cat.Entries[i])
	}
	return out
}

var focusCache = map[string][]int{}

// focusList: catalogue entry index of every focused private run, in order:
// Rounds passes over the whole catalogue, then the extra passes per family.
func focusList(t Tier) []int {
	if l, ok := focusCache[t.Name]; ok {
		return l
	}
	var l []int
	for r := 0; r < t.Rounds; r++ {
		for i := range Cat.Entries {
			l = append(l, i)
		}
	}
	for _, fam := range PrivateFams {
		for r := 0; r < t.Extra[fam]; r++ {
			for i := range Cat.Entries {
				if Cat.Entries[i].Fam == fam {
					l = append(l, i)
				}
			}
		}
	}
	// entries that reach hidden shared state (package-level variables, sync, atomics)
	// get more schedules: that is where check-then-act windows and torn pairs live
	for r := 0; r < t.HotRounds; r++ {
		for i := range Cat.Entries {
			if i < len(Cat.Hot) && Cat.Hot[i] && Cat.Entries[i].Fam != "sec" {
				l = append(l, i)
			}
		}
	}
	var sec []int
	for i := range Cat.Entries {
		if Cat.Entries[i].Fam == "sec" {
			sec = append(sec, i)
		}
	}
	for r := 0; r < t.PairRounds; r++ {
		for x := 0; x < len(sec); x++ {
			for y := x + 1; y < len(sec); y++ {
				l = append(l, pairBase+sec[x]*4096+sec[y])
			}
		}
	}
	for _, fam := range PrivateFams {
		for r := 0; r < t.Many[fam]; r++ {
			for i := range Cat.Entries {
				if Cat.Entries[i].Fam == fam {
					l = append(l, manyBase+i)
				}
			}
		}
	}
	for v := range HotVarNames {
		if len(entriesOfVar(v)) < 2 || v >= 1<<16 {
			continue
		}
		for r := 0; r < t.GroupRounds; r++ {
			l = append(l, groupBase+v*1024+r)
		}
	}
	for _, fam := range append([]string{"*", "hot"}, PrivateFams...) {
		for r := 0; r < t.Warm[fam]; r++ {
			for i := range Cat.Entries {
				if fam == "*" || Cat.Entries[i].Fam == fam || (fam == "hot" && i < len(Cat.Hot) && Cat.Hot[i] && t.Warm[Cat.Entries[i].Fam] == 0) {
					l = append(l, warmBase+i)
				}
			}
		}
	}
	focusCache[t.Name] = l
	return l
}

func focusEntries(code int) []OpSpec {
	if code >= groupBase {
		return groupChoice((code-groupBase)/1024, (code-groupBase)%1024)
	}
	if code >= warmBase {
		return Cat.Entries[code-warmBase : code-warmBase+1]
	}
	if code >= manyBase {
		return Cat.Entries[code-manyBase : code-manyBase+1]
	}
	if code >= pairBase {
		c := code - pairBase
		return []OpSpec{Cat.Entries[c/4096], Cat.Entries[c%4096]}
	}
	return Cat.Entries[code : code+1]
}

var ks = []int{1, 2, 3, 5, 10, 50, 500}

// seedDraw hands out operation seeds for one run: fresh ones, or - with the
// run's sharing probability - one of a few pooled seeds, optionally perturbed,
// so that different tasks (and repeated operations of one task) work on equal
// or near-equal argument VALUES held in distinct objects.
type seedDraw struct {
	r      *Rng
	pool   []uint64
	pShare int
	pVar   int
}

func newSeedDraw(r *Rng, pShare int) *seedDraw {
	d := &seedDraw{r: r, pShare: pShare, pVar: 35}
	for i := 0; i < 2+r.Intn(3); i++ {
		d.pool = append(d.pool, r.U64())
	}
	return d
}

func (d *seedDraw) apply(e OpSpec) OpSpec {
	e.Var = 0
	if d.r.Chance(d.pShare) {
		e.Seed = d.pool[d.r.Intn(len(d.pool))]
		if d.r.Chance(d.pVar) {
			e.Var = d.r.U64() | 1
		}
	} else {
		e.Seed = d.r.U64()
	}
	return e
}

func PlanRun(seed, index uint64, tierName string) *Plan {
	t := Tiers[tierName]
	rs := Mix(seed, index)
	r := NewRng(rs)
	p := &Plan{Property: "C19", Seed: seed, Index: index, RunSeed: rs, Tier: tierName, Pick: -1}
	p.Sched.Stall, p.Sched.LowPrio = -1, -1
	pile, pileCost := false, 0
	victimRun := false
	warmEst := int64(0) // long-lived-caller runs: estimated yields of the whole run
	fl := focusList(t)
	nPriv := len(fl)
	switch {
	case int(index) < nPriv:
		// one run per catalogue entry and round: few tasks, the same operation many
		// times, arguments drawn from a small pool of (partly perturbed) seeds
		p.Kind, p.Mode = "focused", "private"
		chunk := focusEntries(fl[index])
		sd := newSeedDraw(r, []int{45, 70, 85}[r.Intn(3)])
		ntask := 2 + r.Intn(3)
		group := fl[index] >= groupBase
		warm := fl[index] >= warmBase && !group
		many := fl[index] >= manyBase && !warm && !group
		if group && r.Chance(40) {
			ntask = 4 + r.Intn(5)
		}
		if many {
			ntask = 9 + r.Intn(24)
			if r.Chance(35) {
				ntask = 33 + r.Intn(32) // the property speaks of up to 64 goroutines
			}
			if r.Chance(30) {
				// pile-up: every caller is frozen where it is first pre-empted, with gaps of a
				// fraction of one call - so that 40-64 callers are INSIDE the library at the same
				// moment (the most any slot pool, ring or sharded table has to serve at once) -
				// and only then do they all proceed
				pile = true
				ntask = 40 + r.Intn(25)
				p.Sched.Stall = 0
				p.Sched.StallFor = 1 << 20
				for i := 1; i < ntask; i++ {
					p.Sched.StallSet = append(p.Sched.StallSet, i)
				}
			} else if r.Bool() {
				// one slow caller frozen in the middle of an operation while all the others
				// complete theirs
				p.Sched.Stall = r.Intn(ntask)
				p.Sched.StallFor = 1 << 20
				if r.Bool() {
					// ... or a quarter to a half of the callers, each frozen wherever it was
					// first pre-empted: whatever they hold or have looked up goes stale together
					k := ntask/4 + r.Intn(ntask/4+1)
					for i := 0; i < k; i++ {
						if t := r.Intn(ntask); t != p.Sched.Stall {
							p.Sched.StallSet = append(p.Sched.StallSet, t)
						}
					}
				}
			}
		}
		// cheap operations are repeated more often: about 1500 yields per task, at
		// least Reps and at most 10 x Reps calls (costs come from the probe step)
		reps := t.Reps
		warmN, coolRun, victim, victimSame := 0, false, false, false
		if warm {
			// WarmYields yields of discarded repetitions per task (every repetition has a yield
			// budget of one operation), at most WarmMax calls
			cost := 40
			if i := fl[index] - warmBase; i < len(Cat.Cost) && Cat.Cost[i] > 0 {
				cost = Cat.Cost[i]
			}
			warmN = t.WarmYields / (cost + 1)
			if warmN > t.WarmMax {
				warmN = t.WarmMax
			}
			if i := fl[index] - warmBase; i < len(Cat.Size) && Cat.Size[i] > 0 && warmN > 6000000/Cat.Size[i] {
				warmN = 6000000/Cat.Size[i] + 1 // (building the repetitions is the harness's cost)
			}
			if r.Bool() {
				warmN = warmN/4 + r.Intn(warmN/2+1) // not always the same number of calls
			}
			coolRun = r.Chance(45)
			reps = 12
			warmEst = int64(ntask) * int64(warmN) * int64(cost+1)
			if r.Chance(40) {
				// victim run: task 0 is a short-lived caller - recorded calls only - that is
				// frozen in the middle of one of its first calls, at one of the first hot
				// sites it is pre-empted at, until all the others (long-lived callers) have
				// made their thousands of calls. Whatever it has looked up, been handed or is
				// half-way through using is recycled under it: a ring that has gone round, a
				// cache slot evicted and refilled, an arena chunk switched.
				victim, coolRun, victimRun = true, false, true
				if ntask < 3 {
					ntask = 3
				}
				p.Sched.Stall, p.Sched.StallFor, p.Sched.StallSkip = 0, 1<<20, r.Intn(40)
				victimSame = r.Chance(70)
			} else if !coolRun && r.Chance(40) {
				// the warm-up happens before the tasks exist (one caller started the process,
				// the others join a library that is already warm)
				p.PreWarm = &OpSpec{Fam: chunk[0].Fam, Name: chunk[0].Name, Seed: r.U64(), Warm: warmN * ntask}
				if p.PreWarm.Warm > 2*t.WarmMax {
					p.PreWarm.Warm = 2 * t.WarmMax
				}
				warmN = 0
			}
		} else if many {
			reps = 2
			if pile {
				pileCost = 40
				if i := fl[index] - manyBase; i < len(Cat.Cost) && Cat.Cost[i] > 0 {
					pileCost = Cat.Cost[i]
				}
			}
			if r.Bool() {
				sd.pShare = 0 // all arguments distinct: many values meet in small tables
				if fl[index]-manyBase < len(Cat.Cost) {
					if n := 3000000 / (Cat.Cost[fl[index]-manyBase] + 1); n > reps {
						reps = n
					}
				}
				if reps > 30 {
					reps = 30
				}
			}
		} else if fl[index] >= pairBase {
			reps = t.Reps
		} else if fl[index] < len(Cat.Cost) && Cat.Cost[fl[index]] > 0 {
			cost := Cat.Cost[fl[index]]
			if n := 1500 / cost; n > reps {
				reps = n
			}
			if reps > 10*t.Reps {
				reps = 10 * t.Reps
			}
			if cost <= 25 && r.Chance(2) {
				reps = 500 // a long-lived caller: counters, fixed-size tables and pools that only matter after hundreds of calls
			}
		} else if Cat.Cost != nil {
			reps = 4 * t.Reps
		}
		if code := fl[index] % manyBase; !warm && !group && code < pairBase && code < len(Cat.Size) && Cat.Size[code] > 0 {
			// the harness's own cost (building and dumping a call) bounds the repetitions too:
			// about 1.5 MB of canonical dump per task
			if n := 1500000 / Cat.Size[code]; n < reps {
				reps = n
			}
			if reps < 2 {
				reps = 2
			}
		}
		for task := 0; task < ntask; task++ {
			var ops []OpSpec
			for rep := 0; rep < reps || (victim && task == 0 && rep < 2*reps); rep++ {
				for i := range chunk {
					e := chunk[i]
					if task == 2 {
						e = chunk[len(chunk)-1-i]
					}
					if group {
						e = chunk[(i+task)%len(chunk)] // every task starts with a different kind of call
					}
					e = sd.apply(e)
					if victim && task == 0 && victimSame {
						// the victim works with ONE value throughout (one security context, one
						// PLMN): after its first call every further one takes the "already known"
						// path, which is where a looked-up slot can go stale under it
						e.Seed, e.Var = sd.pool[0], 0
					}
					if warmN > 0 && !(victim && task == 0) {
						// the discarded calls are spread over the caller's life: every recorded
						// call has its stretch of them (before it, or after it while the caller
						// keeps the result), so recorded calls happen at every age of the process
						n := warmN/(reps*len(chunk)) + 1
						if coolRun {
							e.Cool = n
						} else {
							e.Warm = n
						}
					}
					ops = append(ops, e)
				}
			}
			p.Tasks = append(p.Tasks, ops)
		}
	case int(index) < nPriv+t.NShared:
		p.Kind, p.Mode = "focused", "shared"
		p.Pick = int(index) - nPriv // every decodable sample in turn
		planShared(p, r, 3+r.Intn(3), 4)
	case int(index) < nPriv+t.NShared+t.NRecycle:
		p.Kind, p.Mode = "focused", "recycle"
		p.Pick = int(index) - nPriv - t.NShared
		planRecycle(p, r, 2*(1+r.Intn(2)))
	case int(index) < nPriv+t.NShared+t.NRecycle+t.NSharedIE:
		// the "decoded message" that several tasks only read is, here, a handful of
		// synthesised values of ONE information-element type (every type in turn, also
		// those that no corpus sample contains), with the well-formed and the
		// legal-but-unusual contents the value generator knows for it
		p.Kind, p.Mode = "focused", "shared"
		p.Pick = SharedIEBase + (int(index)-nPriv-t.NShared-t.NRecycle)%len(SharedIETypes())
		ntask := 3 + r.Intn(3)
		for task := 0; task < ntask; task++ {
			var ops []OpSpec
			for i := 0; i < 3; i++ {
				f := "shget"
				if r.Chance(25) {
					f = "shconv"
				}
				ops = append(ops, OpSpec{Fam: f, Name: "*", Seed: r.U64()})
			}
			p.Tasks = append(p.Tasks, ops)
		}
	default:
		p.Kind = "swarm"
		n := 2 + r.Intn(3)
		switch x := r.Intn(10); {
		case x >= 8:
			n = 2 + r.Intn(t.MaxTasks-1)
		case x >= 5:
			m := t.MaxTasks
			if m > 16 {
				m = 16
			}
			n = 2 + r.Intn(m-1)
		}
		switch x := r.Intn(10); {
		case x < 6:
			p.Mode = "private"
			planPrivate(p, r, n)
		case x < 8:
			p.Mode = "shared"
			planShared(p, r, n, 2+r.Intn(5))
		default:
			p.Mode = "recycle"
			planRecycle(p, r, n)
		}
	}
	// focused runs always simulate first; swarm runs half of the time
	p.ColdFirst = p.Kind == "focused" || r.Bool()
	// schedule shape
	p.Sched.K = ks[r.Intn(len(ks))]
	if r.Chance(3) {
		p.Sched.K = 0
	}
	p.Sched.Exact = p.Sched.K <= 10
	p.Sched.HotBias = r.Chance(50)
	if r.Chance(35) {
		p.Sched.HotOnly = []int{20, 40, 70}[r.Intn(3)]
	}
	if p.Sched.Stall < 0 && len(p.Tasks) > 2 && r.Chance(20) {
		p.Sched.Stall = r.Intn(len(p.Tasks))
		p.Sched.StallFor = 1 + r.Intn(20)
		if r.Chance(35) {
			p.Sched.StallFor = 1 << 20 // frozen in the middle of an operation until everybody else is done
		}
	}
	if len(p.Tasks) > 2 && r.Chance(10) {
		p.Sched.LowPrio = r.Intn(len(p.Tasks))
	}
	if warmEst > 0 {
		// A cold-first run does not know its length and draws gaps of 2..120 yields: in a
		// run of millions of yields the allowance of 4 000 switches is then gone after the
		// first few per cent, and the rest of the run is sequential. Long-lived-caller
		// runs know roughly how long they are: K pre-emptions over the whole of it.
		k := []int64{20, 50, 50, 200, 500, 2000}[r.Intn(6)]
		p.Sched.K, p.Sched.Exact = int(k), false
		p.Sched.MeanGap = warmEst/(k+1) + 1
	}
	if victimRun {
		// the freeze should land on a statement that touches shared state
		p.Sched.LowPrio = -1
		if r.Chance(75) {
			p.Sched.HotOnly = 70
		}
	}
	if pile {
		p.Sched.K, p.Sched.Exact, p.Sched.HotBias, p.Sched.HotOnly, p.Sched.LowPrio = 50, false, false, 0, -1
		p.Sched.MeanGap = int64(pileCost/3 + 2)
	}
	return p
}

func stallSet(l []int) []int32 {
	var out []int32
	for _, t := range l {
		out = append(out, int32(t))
	}
	return out
}

func planPrivate(p *Plan, r *Rng, n int) {
	nf := 1 + r.Intn(3)
	var fams []string
	for i := 0; i < nf; i++ {
		fams = append(fams, PrivateFams[r.Intn(len(PrivateFams))])
	}
	per := 2 + r.Intn(10)
	if n > 16 {
		per = 1 + r.Intn(4)
	}
	sd := newSeedDraw(r, []int{0, 40, 75}[r.Intn(3)])
	// narrow runs: few distinct operation names, so that tasks really meet in the same code
	var names []OpSpec
	for i := 0; i < 1+r.Intn(4); i++ {
		f := fams[r.Intn(len(fams))]
		ns := Cat.ByFam[f]
		names = append(names, OpSpec{Fam: f, Name: ns[r.Intn(len(ns))]})
	}
	narrow := r.Chance(40)
	draw := func() OpSpec {
		if narrow {
			return sd.apply(names[r.Intn(len(names))])
		}
		f := fams[r.Intn(len(fams))]
		ns := Cat.ByFam[f]
		return sd.apply(OpSpec{Fam: f, Name: ns[r.Intn(len(ns))]})
	}
	mirror := r.Bool()
	var first []OpSpec
	for i := 0; i < per; i++ {
		first = append(first, draw())
	}
	for t := 0; t < n; t++ {
		var ops []OpSpec
		for i := 0; i < per; i++ {
			if mirror {
				ops = append(ops, sd.apply(first[i]))
			} else {
				ops = append(ops, draw())
			}
		}
		p.Tasks = append(p.Tasks, ops)
	}
}

func planShared(p *Plan, r *Rng, n, per int) {
	fams := []string{"shget", "shget", "shenc", "shconv"}
	for t := 0; t < n; t++ {
		var ops []OpSpec
		for i := 0; i < per; i++ {
			f := fams[r.Intn(len(fams))]
			ops = append(ops, OpSpec{Fam: f, Name: "*", Seed: r.U64()})
		}
		p.Tasks = append(p.Tasks, ops)
	}
}

func planRecycle(p *Plan, r *Rng, n int) {
	if n < 2 {
		n = 2
	}
	for t := 0; t+1 < n; t += 2 {
		a := []OpSpec{{Fam: "rcdecode", Name: "*", Seed: r.U64()}, {Fam: "rcsend", Name: "*", Seed: r.U64()}}
		for i := 0; i < 1+r.Intn(3); i++ {
			a = append(a, OpSpec{Fam: "rcuse", Name: "*", Seed: r.U64()})
		}
		b := []OpSpec{{Fam: "rcrecv", Name: "*", Seed: r.U64()}, {Fam: "rcover", Name: "*", Seed: r.U64()}}
		for i := 0; i < r.Intn(3); i++ {
			names := Cat.ByFam["decode"]
			b = append(b, OpSpec{Fam: "decode", Name: names[r.Intn(len(names))], Seed: r.U64()})
		}
		p.Tasks = append(p.Tasks, a, b)
	}
	if n%2 == 1 {
		names := Cat.ByFam["decode"]
		p.Tasks = append(p.Tasks, []OpSpec{{Fam: "decode", Name: names[r.Intn(len(names))], Seed: r.U64()}})
	}
}

// ---- execution ----

type outcome struct {
	dump     string
	panicked bool
	aborted  bool
	yields   int64
}

func runInst(in *Inst) {
	y0 := vsimrt.Count()
	if vsimrt.Active() {
		vsimrt.ArmLimit(simCap)
	} else {
		vsimrt.ArmLimit(maxBaselineYields + 1)
	}
	defer func() {
		vsimrt.ArmLimit(0)
		in.yields = vsimrt.Count() - y0
		in.ran = true
		if p := recover(); p != nil {
			if vsimrt.IsAbort(p) {
				in.aborted = true
				return
			}
			if vsimrt.IsRunaway(p) {
				in.panicked = true
				in.panicMsg = "<yield budget exceeded>"
				return
			}
			in.panicked = true
			in.panicMsg = fmt.Sprint(p)
		}
	}()
	in.res = in.Do()
	if !strings.HasPrefix(in.Spec.Fam, "sh") {
		// (not in shared-read mode: a view into the shared message is the caller's to
		// leave alone, appending to it would be the caller's own mistake)
		scribbleSpare(in.res)
	}
}

// scribbleSpare uses every returned byte slice the way a caller may: it writes into
// the capacity beyond its length (what `append(result, ...)` does in place). For a
// result that owns its memory this is invisible; a result carved out of memory that
// the library also hands to others (an arena, a pooled buffer, a table row) makes
// it a write into somebody else's value: a race, and a divergence once the other
// value is dumped.
func scribbleSpare(res []interface{}) {
	for _, r := range res {
		switch b := r.(type) {
		case []byte:
			spare := b[len(b):cap(b)]
			for i := range spare {
				spare[i] = 0xEE
			}
		case []uint32:
			spare := b[len(b):cap(b)]
			for i := range spare {
				spare[i] = 0xEEEEEEEE
			}
		}
	}
}

func (in *Inst) outcome() outcome {
	o := outcome{panicked: in.panicked, aborted: in.aborted, yields: in.yields}
	switch {
	case in.aborted:
		o.dump = "<aborted>"
	case in.panicked:
		o.dump = "panic(" + in.panicMsg + ") args=" + safeDump(in.Args)
	default:
		o.dump = "res=" + safeDump(in.res) + " args=" + safeDump(in.Args)
	}
	return o
}

func safeDump(vals []interface{}) (s string) {
	defer func() {
		if r := recover(); r != nil {
			s = fmt.Sprintf("<dump panicked: %v>", r)
		}
	}()
	return DumpValues(vals...)
}

// baseline runs all operations sequentially (simulation inactive), in task
// order or in reverse, dumping each outcome right after the operation (at the end
// of the run in buffer-recycle mode, see below).
func baseline(p *Plan, slow map[[2]int]bool, reverse bool) [][]outcome {
	env := NewEnv(p.Mode, p.RunSeed, len(p.Tasks), p.Pick)
	insts := buildAll(p, env, slow, true)
	out := make([][]outcome, len(p.Tasks))
	for t := range p.Tasks {
		out[t] = make([]outcome, len(p.Tasks[t]))
	}
	vsimrt.SetCounting(true)
	defer vsimrt.SetCounting(false)
	order := make([]int, len(p.Tasks))
	for i := range order {
		order[i] = i
		if reverse {
			order[i] = len(p.Tasks) - 1 - i
		}
	}
	// In buffer-recycle mode the operations of one task work on ONE decoded message
	// (decode it, then keep reading it): a later operation may legitimately leave its
	// mark on what an earlier one returned. The simulation dumps outcomes when the run
	// is over, so the sequential run does the same there; in the other modes every
	// operation owns its values and an outcome that changes after the call returned is
	// exactly what the early dump is there to expose.
	late := p.Mode == "recycle"
	for _, t := range order {
		for o := range insts[t] {
			runInst(insts[t][o])
			if !late {
				out[t][o] = insts[t][o].outcome()
			}
		}
	}
	if late {
		for _, t := range order {
			for o := range insts[t] {
				out[t][o] = insts[t][o].outcome()
			}
		}
	}
	return out
}

func buildAll(p *Plan, env *Env, slow map[[2]int]bool, sequential bool) [][]*Inst {
	insts := make([][]*Inst, len(p.Tasks))
	for t := range p.Tasks {
		for o, spec := range p.Tasks[t] {
			if slow[[2]int{t, o}] {
				spec = OpSpec{Fam: "noop", Name: spec.Fam + "/" + spec.Name}
			}
			if sequential {
				// the sequential reference of a long-lived caller's recorded call is that call
				// alone: what it returns must not depend on how many calls came before it
				spec.Warm, spec.Cool = 0, 0
			}
			insts[t] = append(insts[t], Cat.Build(spec, env, t))
		}
	}
	return insts
}

// ExecRun executes one planned (or replayed) run and evaluates the oracles
// other than the race oracle (race reports are attributed by the caller from
// the race log).
func ExecRun(p *Plan) *Record {
	rec := &Record{Index: p.Index, RunSeed: p.RunSeed, Kind: p.Kind, Mode: p.Mode, NTasks: len(p.Tasks), K: p.Sched.K, Faults: map[string]int{}}
	famSet := map[string]bool{}
	for _, ops := range p.Tasks {
		rec.NOps += len(ops)
		for _, o := range ops {
			famSet[o.Fam] = true
		}
	}
	for f := range famSet {
		rec.Fams = append(rec.Fams, f)
	}
	sort.Strings(rec.Fams)
	rec.Shape, rec.Discarded = shapeOf(p)

	x := &execution{p: p, rec: rec, slow: map[[2]int]bool{}, noisy: map[[2]int]bool{}}
	if FreeMode || p.Free {
		// no yield budget per task in free-running mode: the baselines must screen out
		// operations that do not terminate before they are run in parallel
		p.ColdFirst = false
	}
	if p.PreWarm != nil {
		func() {
			vsimrt.SetCounting(true)
			defer func() {
				recover()
				vsimrt.ArmLimit(0)
				vsimrt.SetCounting(false)
			}()
			Cat.Build(*p.PreWarm, NewEnv(p.Mode, p.RunSeed, len(p.Tasks), p.Pick), 0).Do()
		}()
	}
	if p.ColdFirst {
		// Simulation BEFORE any sequential execution: whatever the library builds
		// lazily, memoises or pools is first touched inside the tasks, not on the main
		// goroutine (where it would happen-before everything and hide the race).
		simCap = maxBaselineYields + 1
		if !x.simulate(nil, 0) {
			return rec
		}
		x.baselines()
	} else {
		simCap = simOpYieldCap
		x.baselines()
		totals := make([]int64, len(p.Tasks))
		var total int64
		for t := range x.b1 {
			for o := range x.b1[t] {
				totals[t] += x.b1[t][o].yields
			}
			total += totals[t]
		}
		if !x.simulate(totals, total) {
			return rec
		}
	}
	x.compare()
	return rec
}

// shapeOf names the run shape for the evidence (it decides nothing).
func shapeOf(p *Plan) (string, int) {
	if p.Kind != "focused" || p.Mode != "private" {
		return p.Kind + "/" + p.Mode, 0
	}
	names := map[string]bool{}
	warm, cool, n, plain0 := false, false, 0, true
	for t, ops := range p.Tasks {
		for _, o := range ops {
			names[o.Name] = true
			warm, cool = warm || o.Warm > 0, cool || o.Cool > 0
			n += o.Warm + o.Cool
			if t == 0 && (o.Warm > 0 || o.Cool > 0) {
				plain0 = false
			}
		}
	}
	switch {
	case p.PreWarm != nil:
		return "pre_warm", p.PreWarm.Warm
	case (warm || cool) && plain0 && p.Sched.Stall == 0:
		return "victim", n
	case warm:
		return "warm", n
	case cool:
		return "cool", n
	case len(names) > 1:
		return "several_entries", 0
	case len(p.Tasks) > 8:
		return "many_tasks", 0
	}
	return "entry", 0
}

// FreeMode: set by the worker when the driver found blocking / spawning constructs
// in the library (see vsimrt.Config.Free).
var FreeMode bool

// maskAddrs replaces what looks like a heap address (0xc000... or the same number
// printed in decimal: 12 or more digits starting with 824 = 0xc0 << 32) by a token.
func maskAddrs(s string) string {
	if !strings.Contains(s, "0xc0") && !strings.Contains(s, "824") {
		return s
	}
	var b strings.Builder
	for i := 0; i < len(s); {
		if strings.HasPrefix(s[i:], "0xc0") {
			j := i + 4
			for j < len(s) && ((s[j] >= '0' && s[j] <= '9') || (s[j] >= 'a' && s[j] <= 'f')) {
				j++
			}
			if j-i >= 10 {
				b.WriteString("<addr>")
				i = j
				continue
			}
		}
		if strings.HasPrefix(s[i:], "824") && (i == 0 || s[i-1] < '0' || s[i-1] > '9') {
			j := i
			for j < len(s) && s[j] >= '0' && s[j] <= '9' {
				j++
			}
			if j-i == 12 {
				b.WriteString("<addr>")
				i = j
				continue
			}
		}
		b.WriteByte(s[i])
		i++
	}
	return b.String()
}

// simCap: yield budget of one operation under simulation (see runInst).
var simCap int64 = simOpYieldCap

type execution struct {
	p      *Plan
	rec    *Record
	slow   map[[2]int]bool
	noisy  map[[2]int]bool
	masked map[[2]int]bool // outcome differs between identical sequential runs only in address-like numbers: compared with those masked
	b1     [][]outcome
	insts  [][]*Inst
	stats  vsimrt.Stats
}

// baselines: order 1 twice (instability = noise, excluded), reverse order once
// (private mode; a difference is hidden state: order-dependence).
func (x *execution) baselines() {
	p, rec := x.p, x.rec
	b1 := baseline(p, x.slow, false)
	nslow := len(x.slow)
	for t := range b1 {
		for o := range b1[t] {
			cut := (FreeMode || p.Free) && strings.Contains(b1[t][o].dump, "<yield budget exceeded>")
			if (b1[t][o].yields > maxBaselineYields || cut) && !x.slow[[2]int{t, o}] {
				x.slow[[2]int{t, o}] = true
				rec.SlowOps = append(rec.SlowOps, p.Tasks[t][o].Fam+"/"+p.Tasks[t][o].Name)
			}
		}
	}
	if len(x.slow) > nslow {
		b1 = baseline(p, x.slow, false)
	}
	rec.TooSlow = len(x.slow)
	b2 := baseline(p, x.slow, false)
	for t := range b1 {
		for o := range b1[t] {
			if b1[t][o].dump != b2[t][o].dump {
				if maskAddrs(b1[t][o].dump) == maskAddrs(b2[t][o].dump) {
					// e.g. an error text that prints a pointer: everything else is still compared
					if x.masked == nil {
						x.masked = map[[2]int]bool{}
					}
					x.masked[[2]int{t, o}] = true
					rec.Masked++
					continue
				}
				x.noisy[[2]int{t, o}] = true
				rec.NoisyOps = append(rec.NoisyOps, p.Tasks[t][o].String())
				if rec.NoisyDiff == "" {
					rec.NoisyDiff = firstDiff(b1[t][o].dump, b2[t][o].dump)
				}
			}
			if b1[t][o].panicked {
				rec.ExpPanics++
			}
			if strings.Contains(b1[t][o].dump, "<missing op>") {
				rec.Missing++
			}
		}
	}
	rec.Noisy = len(x.noisy)
	if p.Mode == "private" {
		b3 := baseline(p, x.slow, true)
		for t := range b1 {
			for o := range b1[t] {
				k := [2]int{t, o}
				if x.noisy[k] {
					continue
				}
				// address-like numbers are always masked: two sequential runs may by chance print
				// the same heap address (the allocator reuses a freed slot) and so escape the
				// "masked" bookkeeping above
				d1, d3 := b1[t][o].dump, b3[t][o].dump
				if d1 != d3 {
					d1, d3 = maskAddrs(d1), maskAddrs(d3)
				}
				if d1 != d3 {
					spec := p.Tasks[t][o]
					rec.Violations = append(rec.Violations, Violation{
						Class: "order-dependence", Key: "order-dependence:" + spec.Fam + "/" + spec.Name,
						Detail: "sequential outcome depends on which unrelated operations ran before: " + firstDiff(b1[t][o].dump, b3[t][o].dump),
						Task:   t, Op: o, Spec: spec.String(),
					})
				}
			}
		}
	}
	x.b1 = b1
	rec.BaseDigests = make([][]uint64, len(b1))
	for t := range b1 {
		rec.BaseDigests[t] = make([]uint64, len(b1[t]))
		for o := range b1[t] {
			if !x.noisy[[2]int{t, o}] && !x.slow[[2]int{t, o}] {
				rec.BaseDigests[t][o] = Hash64(maskAddrs(b1[t][o].dump)) | 1
			}
		}
	}
}

// ColdOrderRun is the other half of the cold-order oracle: in a FRESH process the
// operations of a run are executed sequentially, last task first, before anything
// else has touched the library. The driver compares the digests with the sequential
// outcomes of the main exploration (where another task's operation came first):
// state that is set up once by whoever calls first, from that caller's arguments,
// shows up as a difference. reverse=false is the control: the same order as the main
// exploration, again in a fresh process - an outcome that differs there too depends on
// the process (or on nothing at all), not on who called first.
func ColdOrderRun(p *Plan, reverse bool) *Record {
	rec := &Record{Index: p.Index, RunSeed: p.RunSeed, Kind: p.Kind, Mode: p.Mode, NTasks: len(p.Tasks), Faults: map[string]int{}}
	slow := map[[2]int]bool{}
	rev := baseline(p, slow, reverse)
	for t := range rev {
		for o := range rev[t] {
			if rev[t][o].yields > maxBaselineYields {
				slow[[2]int{t, o}] = true
			}
		}
	}
	rec.BaseDigests = make([][]uint64, len(rev))
	for t := range rev {
		rec.BaseDigests[t] = make([]uint64, len(rev[t]))
		for o := range rev[t] {
			if !slow[[2]int{t, o}] {
				rec.BaseDigests[t][o] = Hash64(maskAddrs(rev[t][o].dump)) | 1
			}
		}
	}
	ex := *p
	rec.Plan = &ex
	return rec
}

// simulate runs the tasks under the scheduler. totals == nil: cold-first run,
// pre-emption by geometric gaps and fault positions from fixed ranges.
func (x *execution) simulate(totals []int64, total int64) bool {
	p, rec := x.p, x.rec
	cfg := &vsimrt.Config{Seed: p.RunSeed, StallTask: int32(p.Sched.Stall), StallFor: p.Sched.StallFor, StallSet: stallSet(p.Sched.StallSet), StallSkip: p.Sched.StallSkip, LowPrio: int32(p.Sched.LowPrio),
		SiteFlags: siteFlags, NumSites: len(SiteTab)}
	cfg.Free = p.Free || FreeMode
	r := NewRng(Mix(p.RunSeed, 0x5c4ed))
	if cfg.Free {
		p.Free = true
		p.Faults = []FaultSpec{}
	}
	span := func(t int) int64 {
		if totals != nil {
			return totals[t]
		}
		return 40 * int64(len(p.Tasks[t])+1) // rough: a few dozen yields per operation
	}
	if p.ReplayMode {
		cfg.ReplayMode = true
		for _, s := range p.Schedule {
			cfg.Replay = append(cfg.Replay, vsimrt.Segment{Task: s.T, N: s.N})
		}
	} else {
		cfg.HotBias = p.Sched.HotBias
		cfg.HotSlack = 60
		if p.Sched.HotOnly > 0 {
			cfg.HotOnly, cfg.HotProb = true, int64(p.Sched.HotOnly)
		}
		switch {
		case totals == nil:
			if p.Sched.K > 0 {
				if p.Sched.MeanGap <= 0 {
					p.Sched.MeanGap = []int64{2, 4, 8, 16, 40, 120}[r.Intn(6)]
				}
				cfg.MeanGap = p.Sched.MeanGap
			}
		case p.Sched.K > 0 && total > 0 && p.Sched.Exact:
			// exact points; the tail where only the last task is left cannot be pre-empted
			hi := total
			if n := int64(len(totals)); n > 0 && total/(2*n) > 0 {
				hi = total - total/(2*n)
			}
			pts := make([]int64, p.Sched.K)
			for i := range pts {
				pts[i] = 1 + int64(r.U64()%uint64(hi))
			}
			sort.Slice(pts, func(i, j int) bool { return pts[i] < pts[j] })
			cfg.SwitchAt = pts
			p.Sched.Points = pts
		case p.Sched.K > 0 && total > 0:
			cfg.MeanGap = total/int64(p.Sched.K+1) + 1
			p.Sched.MeanGap = cfg.MeanGap
		}
		// faults are drawn here once, stored in the plan, and replayed verbatim
		if p.Faults == nil {
			p.Faults = []FaultSpec{}
			if Tiers[p.Tier].Faults && p.Mode != "recycle" {
				if r.Chance(15) {
					for k := 0; k < 1+r.Intn(2); k++ {
						t := r.Intn(len(p.Tasks))
						if span(t) > 0 {
							p.Faults = append(p.Faults, FaultSpec{Kind: "abort", Task: t, At: 1 + int64(r.U64()%uint64(span(t))), Slack: 64})
						}
					}
				}
				if r.Chance(5) {
					t := r.Intn(len(p.Tasks))
					if span(t) > 0 {
						p.Faults = append(p.Faults, FaultSpec{Kind: "gc", Task: t, At: 1 + int64(r.U64()%uint64(span(t)))})
					}
				}
			}
		}
	}
	for _, f := range p.Faults {
		vf := vsimrt.Fault{Task: int32(f.Task), At: f.At, Slack: f.Slack}
		switch f.Kind {
		case "abort":
			vf.Kind = vsimrt.FaultAbort
		case "gc":
			vf.Kind = vsimrt.FaultGC
		}
		if f.Task < len(p.Tasks) {
			cfg.Faults = append(cfg.Faults, vf)
		}
	}

	env := NewEnv(p.Mode, p.RunSeed, len(p.Tasks), p.Pick)
	insts := buildAll(p, env, x.slow, false)
	bodies := make([]func(), len(insts))
	for t := range insts {
		mine := insts[t]
		bodies[t] = func() {
			for _, in := range mine {
				runInst(in)
			}
		}
	}
	stats, err := vsimrt.Run(cfg, bodies)
	if err != nil {
		rec.Hang = true
		rec.Sample = "scheduler error: " + err.Error()
		return false
	}
	x.insts, x.stats = insts, stats
	rec.Yields, rec.Switches, rec.HotSwitches, rec.StallSkips = stats.Yields, stats.Switches, stats.HotSwitches, stats.StallSkips
	rec.SchedDigest = stats.SchedDigest
	rec.Truncated, rec.Drift, rec.Hang = stats.Truncated, stats.ReplayDrift, stats.Hang
	for _, f := range vsimrt.FaultsAfter() {
		if f.Fired && f.FiredAt >= 0 {
			switch f.Kind {
			case vsimrt.FaultAbort:
				rec.Faults["abort"]++
			case vsimrt.FaultGC:
				rec.Faults["gc"]++
			}
		}
	}
	if stats.StallSkips > 0 {
		rec.Faults["stall"]++
	}
	if p.Mode == "recycle" {
		rec.Faults["buffer_recycle"] += len(env.Pairs)
	}
	if p.ColdFirst {
		rec.Faults["cold_first"]++
	}
	return true
}

// compare: sequential-equivalence and panic oracles.
func (x *execution) compare() {
	p, rec := x.p, x.rec
	rd := uint64(1469598103934665603)
	for t := range x.insts {
		for o, in := range x.insts[t] {
			oc := in.outcome()
			k := [2]int{t, o}
			if !x.noisy[k] {
				// the result digest is compared between processes by the self-test: heap
				// addresses printed into an outcome (an error text with %p / %v of a pointer)
				// and outcomes that are unstable even sequentially must not enter it
				rd = (rd ^ Hash64(maskAddrs(oc.dump))) * 1099511628211
			}
			if x.noisy[k] || oc.aborted || x.slow[k] {
				continue
			}
			exp := x.b1[t][o]
			spec := p.Tasks[t][o]
			if !in.ran {
				rec.Violations = append(rec.Violations, Violation{Class: "diverge", Key: "diverge:" + spec.Fam + "/" + spec.Name,
					Detail: "operation did not run in simulation", Task: t, Op: o, Spec: spec.String()})
				continue
			}
			if oc.yields != exp.yields {
				rec.YieldDiffs++
			}
			if oc.dump == exp.dump || maskAddrs(oc.dump) == maskAddrs(exp.dump) {
				continue
			}
			if oc.panicked && in.panicMsg == "<yield budget exceeded>" && !exp.panicked && exp.yields*4 >= simCap {
				// The operation is within a factor of four of the budget even sequentially; in
				// the simulation it came first in a cold process and paid for whatever the
				// library sets up once (a table built under sync.Once costs a million yields),
				// which pushed it over. The budget exists to survive endless loops, it is not
				// an oracle for operations this close to it: not compared.
				rec.TooSlow++
				continue
			}
			class := "diverge"
			if oc.panicked != exp.panicked {
				class = "panic-mismatch"
			}
			rec.Violations = append(rec.Violations, Violation{
				Class: class, Key: class + ":" + spec.Fam + "/" + spec.Name,
				Detail: "outcome under simulation differs from the sequential run: " + firstDiff(exp.dump, oc.dump),
				Task:   t, Op: o, Spec: spec.String(),
			})
		}
	}
	rec.ResultDigest = rd
	// executed schedule, for replay files
	ex := *p
	ex.ReplayMode = true
	ex.Schedule = make([]Seg, 0, len(x.stats.Segments))
	for _, s := range x.stats.Segments {
		ex.Schedule = append(ex.Schedule, Seg{T: s.Task, N: s.N})
	}
	rec.Plan = &ex
	if len(p.Tasks) > 0 && len(p.Tasks[0]) > 0 {
		rec.Sample = p.Tasks[0][0].String()
	}
}

// ProbeCosts runs every catalogue entry once, sequentially, and records how many
// yields it executes (probe step only; workers load the result from the probe file).
func ProbeCosts() {
	c := Cat
	c.Cost = make([]int, len(c.Entries))
	c.Hot = make([]bool, len(c.Entries))
	c.Size = make([]int, len(c.Entries))
	c.HotVars = make([][]int, len(c.Entries))
	vsimrt.SetCounting(true)
	defer vsimrt.SetCounting(false)
	for i, e := range c.Entries {
		total := int64(0)
		vsimrt.ResetBase()
		for k := uint64(0); k < 6; k++ {
			e.Seed = 0x9e3779b97f4a7c15 * (k + 1)
			in := c.Build(e, nil, 0)
			runInst(in)
			total += in.yields
			c.Size[i] += len(in.outcome().dump) / 6
		}
		c.Cost[i] = int(total/6) + 1
		c.Hot[i] = vsimrt.BaseHit(siteFlags, vsimrt.FlagHot)
		if c.Hot[i] {
			seen := map[int32]bool{}
			for _, site := range vsimrt.BaseSites() {
				for _, v := range SiteVars[int32(site)] {
					if !seen[v] {
						seen[v] = true
						c.HotVars[i] = append(c.HotVars[i], int(v))
					}
				}
			}
			sort.Ints(c.HotVars[i])
		}
	}
}

var siteFlags []uint8

// InitHarness prepares process-wide state.
func InitHarness() {
	siteFlags = make([]uint8, len(SiteTab))
	for i := range SiteTab {
		siteFlags[i] = uint8(SiteTab[i][2])
	}
	vsimrt.InitSites(len(SiteTab))
	BuildCatalogue()
	FixTiers()
}

// SiteName renders a site id.
func SiteName(id uint32) string {
	if int(id) >= len(SiteTab) {
		return "?"
	}
	return fmt.Sprintf("%s:%d", SiteFiles[SiteTab[id][0]], SiteTab[id][1])
}
