package harness

import (
	"bytes"
	_ "embed"
	"encoding/hex"
	"encoding/json"
	"fmt"
	"os"
	"reflect"
	"sort"
	"strings"
	"sync/atomic"

	nas "github.com/free5gc/nas"
	"github.com/free5gc/nas/security"
	"github.com/free5gc/nas/security/snow3g"
	"github.com/free5gc/nas/security/zuc"
	"github.com/free5gc/nas/uePolicyContainer"
	"github.com/free5gc/nas/zzverif/vsimrt"
)

type RegFunc struct {
	Pkg, Name string
	Fn        reflect.Value
	Params    []string
}

type RegType struct {
	Pkg, Name string
	T         reflect.Type
}

// OpSpec names one operation; everything about it (arguments included) is a
// function of the spec, the run environment and the tree under test.
type OpSpec struct {
	Fam  string `json:"fam"`
	Name string `json:"name"`
	Seed uint64 `json:"seed"`
	// Var != 0: the arguments synthesised from Seed are perturbed in one place
	// (one bit of one byte string / integer). Two operations with the same Seed
	// and different Var get near-identical, unequal arguments - what collides in
	// value-keyed caches, memo tables and direct-mapped slots.
	Var uint64 `json:"var,omitempty"`
	// Warm > 0: before the operation itself, the same entry is called Warm times on
	// arguments of its own (seeds derived from Seed, half of them from a pool of eight
	// so that values recur), and those results are thrown away. The recorded outcome
	// is the last call's. This is a long-lived caller: state that the library only
	// starts to share after hundreds or thousands of calls (adaptive caches, warm-up
	// thresholds, "every 1024th call" maintenance) is reached inside the simulation,
	// at a cost of one call - not of one build-dump-compare - per repetition.
	Warm int `json:"warm,omitempty"`
	// Cool > 0: the mirror image - the recorded call comes FIRST, then the same entry
	// is called Cool times on other arguments while the caller keeps what the first
	// call returned (outcomes of a simulated run are dumped when the run is over). A
	// result must stay what it was while the process makes thousands of further calls:
	// output carved from an arena or ring that is recycled after a megabyte or after
	// 1 024 results is only overwritten then.
	Cool int `json:"cool,omitempty"`
}

func (s OpSpec) String() string {
	if s.Warm > 0 || s.Cool > 0 {
		w, c := s.Warm, s.Cool
		s.Warm, s.Cool = 0, 0
		return fmt.Sprintf("%s+warm%d+cool%d", s.String(), w, c)
	}
	if s.Var != 0 {
		return fmt.Sprintf("%s/%s#%x~%x", s.Fam, s.Name, s.Seed, s.Var)
	}
	return fmt.Sprintf("%s/%s#%x", s.Fam, s.Name, s.Seed)
}

// Inst is an instantiated operation.
type Inst struct {
	Spec OpSpec
	Do   func() []interface{} // runs library code; returns the values that make up the result
	Args []interface{}        // dumped after Do: arguments / receiver (mutation check)

	res      []interface{}
	panicMsg string
	panicked bool
	aborted  bool
	ran      bool
	yields   int64
}

// Sample is one corpus entry.
type Sample struct {
	Name string
	Data []byte
	OK   bool // decodes without error on the tree under test
}

//go:embed corpus.txt
var corpusText string

type Catalogue struct {
	Samples   []Sample
	OKSamples []int
	Funcs     map[string]*RegFunc
	Types     map[string]*RegType
	Methods   map[string]methodRef   // "pkg.Type.Method"
	Entries   []OpSpec               // every (fam,name) of the private mode, registry order
	ByFam     map[string][]string    // fam -> names
	ifaceImpl map[reflect.Type][]int // interface type -> indices into RegTypes
	Skipped   map[string]string      // name -> reason
	convRead  []convRef              // nasConvert helpers usable on shared IEs
	autoRT    map[string][2]string   // type key -> marshal / unmarshal method names
	Cost      []int                  // yields of one sequential execution per catalogue entry (from the probe step; nil if not probed)
	Hot       []bool                 // the entry executed a hot site (package-level state, sync, atomic) in the probe step
	HotVars   [][]int                // per entry: the package-level variables (indices into HotVarNames) whose statements it executed in the probe step
	Size      []int                  // length of the canonical outcome dump (arguments + results) in the probe step: what building and comparing one call costs the harness
}

type methodRef struct {
	T      *RegType
	Method string
	Params []string
}

type convRef struct {
	F  *RegFunc
	In reflect.Type
}

var Cat *Catalogue

// Families of the private mode, in catalogue order.
var PrivateFams = []string{"decode", "encode", "reencode", "redecode", "decodebad", "sec", "fn", "method", "accessors", "chain", "roundtrip", "hist"}

func BuildCatalogue() *Catalogue {
	c := &Catalogue{
		Funcs: map[string]*RegFunc{}, Types: map[string]*RegType{}, Methods: map[string]methodRef{},
		ByFam: map[string][]string{}, ifaceImpl: map[reflect.Type][]int{}, Skipped: map[string]string{},
	}
	Cat = c
	if ProbeFile != "" {
		// samples probed by `simc19 -probe` in another process: nothing of the library
		// runs here, so that the first simulated run of this process meets it cold
		if err := c.loadProbe(ProbeFile); err != nil {
			panic("harness: cannot load probe file: " + err.Error())
		}
	} else {
		c.probeSamples()
	}
	add := func(fam, name string) {
		c.ByFam[fam] = append(c.ByFam[fam], name)
	}
	for i := range c.Samples {
		add("decode", c.Samples[i].Name)
		add("decodebad", c.Samples[i].Name)
		if c.Samples[i].OK {
			add("encode", c.Samples[i].Name)
			add("reencode", c.Samples[i].Name)
			add("redecode", c.Samples[i].Name)
		}
	}
	for _, n := range secNames {
		add("sec", n)
	}
	for i := range RegFuncs {
		f := &RegFuncs[i]
		key := f.Pkg + "." + f.Name
		c.Funcs[key] = f
		if f.Pkg == "logger" {
			c.Skipped["fn/"+key] = "process-wide logger configuration API, not a C19 call kind"
			continue
		}
		if _, ok := SynthArgs(NewRng(1), f.Fn.Type(), f.Params, 0); !ok {
			c.Skipped["fn/"+key] = "parameter type cannot be synthesised"
			continue
		}
		if f.Fn.Type().NumIn() == 0 && !strings.HasPrefix(f.Name, "New") {
			// e.g. a statistics or version getter: not an operation on caller-owned values;
			// its result may legitimately depend on what the process did before
			c.Skipped["fn/"+key] = "no parameters and not a constructor: not one of the call kinds C19 lists"
			continue
		}
		add("fn", key)
	}
	for i := range RegTypes {
		t := &RegTypes[i]
		c.Types[t.Pkg+"."+t.Name] = t
	}
	for i := range RegTypes {
		t := &RegTypes[i]
		if t.Pkg == "logger" {
			continue
		}
		pt := reflect.PtrTo(t.T)
		nAcc := 0
		for m := 0; m < pt.NumMethod(); m++ {
			mm := pt.Method(m)
			key := t.Pkg + "." + t.Name + "." + mm.Name
			params, declared := RegMethodParams[key]
			if !declared {
				continue // promoted through an embedded field: reached on its own type
			}
			if _, ok := SynthArgs(NewRng(1), mm.Type, params, 1); !ok {
				c.Skipped["method/"+key] = "parameter type cannot be synthesised"
				continue
			}
			c.Methods[key] = methodRef{T: t, Method: mm.Name, Params: params}
			add("method", key)
			if strings.HasPrefix(mm.Name, "Get") || strings.HasPrefix(mm.Name, "Set") {
				nAcc++
			}
		}
		if nAcc > 0 {
			add("accessors", t.Pkg+"."+t.Name)
		}
		if len(c.chainTargets(reflect.New(t.T))) > 0 {
			add("chain", t.Pkg+"."+t.Name)
		}
	}
	for _, n := range roundtripNames {
		add("roundtrip", n)
	}
	// every exported type that has a marshal / unmarshal pair gets a round-trip entry
	// (follows the tree: a codec added by a change is exercised without touching /verif)
	c.autoRT = map[string][2]string{}
	for i := range RegTypes {
		t := &RegTypes[i]
		if t.Pkg == "logger" {
			continue
		}
		pt := reflect.PtrTo(t.T)
		for _, pair := range [][2]string{{"MarshalBinary", "UnmarshalBinary"}, {"Marshal", "UnMarshal"}, {"Marshal", "Unmarshal"}} {
			mm, ok1 := pt.MethodByName(pair[0])
			um, ok2 := pt.MethodByName(pair[1])
			if !ok1 || !ok2 || mm.Type.NumIn() != 1 || mm.Type.NumOut() < 1 || mm.Type.Out(0) != byteSliceType ||
				um.Type.NumIn() != 2 || um.Type.In(1) != byteSliceType {
				continue
			}
			key := t.Pkg + "." + t.Name
			if _, declared := RegMethodParams[key+"."+pair[0]]; !declared {
				continue
			}
			c.autoRT[key] = pair
			add("roundtrip", key)
			break
		}
	}
	add("hist", "count")
	add("hist", "idgen")
	for _, fam := range PrivateFams {
		for _, n := range c.ByFam[fam] {
			c.Entries = append(c.Entries, OpSpec{Fam: fam, Name: n})
		}
	}
	// read-only conversion helpers applicable to IEs of a shared message
	for i := range RegFuncs {
		f := &RegFuncs[i]
		if f.Pkg != "nasConvert" || f.Fn.Type().NumIn() != 1 {
			continue
		}
		in := f.Fn.Type().In(0)
		base := in
		if base.Kind() == reflect.Ptr {
			base = base.Elem()
		}
		if strings.HasSuffix(base.PkgPath(), "/nasType") || in == byteSliceType {
			c.convRead = append(c.convRead, convRef{F: f, In: in})
		}
	}
	return c
}

// ProbeFile: if set before InitHarness, the sample table is loaded from it.
var ProbeFile string

type probeFile struct {
	Samples []probeSample `json:"samples"`
	Cost    []int         `json:"cost"`
	Hot     []bool        `json:"hot"`
	HotVars [][]int       `json:"hot_vars"`
	Size    []int         `json:"size"`
}

type probeSample struct {
	Name string `json:"name"`
	Data string `json:"data"`
	OK   bool   `json:"ok"`
}

// probeSamples decodes the embedded corpus with the library under test: which
// samples decode, and shrunk versions of the maximum-size ones.
func (c *Catalogue) probeSamples() {
	for _, ln := range strings.Split(corpusText, "\n") {
		p := strings.SplitN(ln, "\t", 2)
		if len(p) != 2 {
			continue
		}
		b, err := hex.DecodeString(strings.TrimSpace(p[1]))
		if err != nil {
			continue
		}
		c.Samples = append(c.Samples, Sample{Name: p[0], Data: b})
	}
	for i := range c.Samples {
		if len(c.Samples[i].Data) > 2048 {
			// maximum-size samples carry 64 KiB opaque IEs; the code paths are the same
			// for 40 octets, and the simulation budget is better spent on schedules
			if small := shrinkSample(c.Samples[i].Data); small != nil {
				c.Samples[i].Data = small
			} else {
				c.Samples[i].Data = c.Samples[i].Data[:2048]
			}
		}
		func() {
			defer func() { recover() }()
			m := nas.NewMessage()
			d := append([]byte(nil), c.Samples[i].Data...)
			if err := m.PlainNasDecode(&d); err == nil {
				c.Samples[i].OK = true
			}
		}()
		if c.Samples[i].OK {
			c.OKSamples = append(c.OKSamples, i)
		}
	}
}

// WriteProbe stores the probed sample table.
func (c *Catalogue) WriteProbe(path string) error {
	var out probeFile
	for _, s := range c.Samples {
		out.Samples = append(out.Samples, probeSample{s.Name, hex.EncodeToString(s.Data), s.OK})
	}
	out.Cost = c.Cost
	out.Hot = c.Hot
	out.HotVars = c.HotVars
	out.Size = c.Size
	b, err := json.Marshal(out)
	if err != nil {
		return err
	}
	return os.WriteFile(path, b, 0o644)
}

func (c *Catalogue) loadProbe(path string) error {
	b, err := os.ReadFile(path)
	if err != nil {
		return err
	}
	var pf probeFile
	if err := json.Unmarshal(b, &pf); err != nil {
		return err
	}
	c.Cost = pf.Cost
	c.Hot = pf.Hot
	c.HotVars = pf.HotVars
	c.Size = pf.Size
	for i, s := range pf.Samples {
		d, err := hex.DecodeString(s.Data)
		if err != nil {
			return err
		}
		c.Samples = append(c.Samples, Sample{Name: s.Name, Data: d, OK: s.OK})
		if s.OK {
			c.OKSamples = append(c.OKSamples, i)
		}
	}
	return nil
}

var secNames = []string{
	"NASEncrypt/0", "NASEncrypt/1", "NASEncrypt/2", "NASEncrypt/3",
	"NASMac/0", "NASMac/1", "NASMac/2", "NASMac/3",
	"NEA1", "NEA2", "NEA3", "NIA1", "NIA2", "NIA3", "snow3g", "zuc",
	"protect/1", "protect/2", "protect/3",
	"NASEncrypt/invalid", "NASMac/invalid",
}

var roundtripNames = []string{"qosrules", "qosflow", "pco", "uepolicy"}

// implementers returns registry types whose pointer implements iface.
func (c *Catalogue) implementers(iface reflect.Type) []int {
	if v, ok := c.ifaceImpl[iface]; ok {
		return v
	}
	var out []int
	for i := range RegTypes {
		if reflect.PtrTo(RegTypes[i].T).Implements(iface) {
			out = append(out, i)
		}
	}
	c.ifaceImpl[iface] = out
	return out
}

// ---- environment of one run ----

// Pair is the state of one buffer-recycle pair (tasks 2k, 2k+1).
type Pair struct {
	Buf  []byte // receive buffer, owned by A until handed over
	N    int    // length of the first packet in Buf
	Msg  *nas.Message
	Pkt2 []byte
	Flag atomic.Bool // hand-over: set by A after decoding, awaited by B
}

type Env struct {
	Mode      string // private | shared | recycle
	Shared    *nas.Message
	SharedIEs []reflect.Value // pointers to the IEs of the shared message
	Pairs     []*Pair
}

// NewEnv builds the run environment. Called on the main goroutine, outside
// simulation, once per baseline and once for the simulated execution.
func NewEnv(mode string, seed uint64, ntasks int, pick int) *Env {
	e := &Env{Mode: mode}
	r := NewRng(Mix(seed, 0xe17))
	switch mode {
	case "shared":
		c := Cat
		if len(c.OKSamples) == 0 {
			return e
		}
		// prefer the richer samples
		var idx int
		for try := 0; try < 4; try++ {
			idx = c.OKSamples[r.Intn(len(c.OKSamples))]
			if len(c.Samples[idx].Data) > 20 {
				break
			}
		}
		if names := SharedIETypes(); pick >= SharedIEBase && len(names) > 0 {
			t := c.Types[names[(pick-SharedIEBase)%len(names)]]
			e.Shared = nas.NewMessage() // empty: the shared values below are what the tasks read
			if t != nil {
				for k := 0; k < 8; k++ {
					e.SharedIEs = append(e.SharedIEs, c.newReceiver(t.T, r.Fork()))
				}
			}
			return e
		}
		if pick >= 0 {
			idx = c.OKSamples[pick%len(c.OKSamples)]
		}
		data := variantOf(c.Samples[idx].Data, r)
		m := nas.NewMessage()
		func() {
			defer func() { recover() }()
			if err := m.PlainNasDecode(&data); err != nil {
				d2 := append([]byte(nil), c.Samples[idx].Data...)
				m = nas.NewMessage()
				_ = m.PlainNasDecode(&d2)
			}
		}()
		e.Shared = m
		e.SharedIEs = collectIEs(reflect.ValueOf(m))
	case "recycle":
		c := Cat
		for k := 0; k < ntasks/2; k++ {
			p := &Pair{}
			ai := c.OKSamples[r.Intn(len(c.OKSamples))]
			if pick >= 0 && k == 0 {
				ai = c.OKSamples[pick%len(c.OKSamples)]
			}
			a := variantOf(c.Samples[ai].Data, r)
			b := variantOf(c.Samples[c.OKSamples[r.Intn(len(c.OKSamples))]].Data, r)
			n := len(a)
			if len(b) > n {
				n = len(b)
			}
			p.Buf = make([]byte, n+16)
			copy(p.Buf, a)
			p.N = len(a)
			p.Pkt2 = b
			p.Msg = nas.NewMessage()
			e.Pairs = append(e.Pairs, p)
		}
	}
	return e
}

// variantOf derives a decodable variant of a sample: decode, re-randomise the
// content octets of some IEs under the same lengths, drop some optional IEs,
// re-encode. Falls back to the sample itself.
func variantOf(sample []byte, r *Rng) []byte {
	orig := append([]byte(nil), sample...)
	if r.Chance(25) {
		return orig
	}
	var out []byte
	func() {
		defer func() {
			if recover() != nil {
				out = nil
			}
		}()
		m := nas.NewMessage()
		d := append([]byte(nil), sample...)
		if err := m.PlainNasDecode(&d); err != nil {
			return
		}
		mutateMessage(reflect.ValueOf(m), r)
		b, err := m.PlainNasEncode()
		if err != nil {
			return
		}
		// must still decode
		chk := nas.NewMessage()
		b2 := append([]byte(nil), b...)
		if err := chk.PlainNasDecode(&b2); err != nil {
			return
		}
		out = b
	}()
	if out == nil {
		return orig
	}
	return out
}

// shrinkSample decodes a large sample, truncates every IE buffer longer than
// 48 octets (keeping Len consistent) and re-encodes it.
func shrinkSample(data []byte) (out []byte) {
	defer func() {
		if recover() != nil {
			out = nil
		}
	}()
	m := nas.NewMessage()
	d := append([]byte(nil), data...)
	if err := m.PlainNasDecode(&d); err != nil {
		return nil
	}
	for _, ie := range collectIEs(reflect.ValueOf(m)) {
		v := ie.Elem()
		lf, bf := directField(v, "Len"), directField(v, "Buffer")
		if !lf.IsValid() || !bf.IsValid() || bf.Kind() != reflect.Slice || bf.Len() <= 48 {
			continue
		}
		n := 17 + bf.Len()%31
		bf.Set(bf.Slice(0, n))
		lf.SetUint(uint64(n))
	}
	b, err := m.PlainNasEncode()
	if err != nil {
		return nil
	}
	chk := nas.NewMessage()
	b2 := append([]byte(nil), b...)
	if err := chk.PlainNasDecode(&b2); err != nil {
		return nil
	}
	return b
}

func isNasTypeIE(t reflect.Type) bool {
	return t.Kind() == reflect.Struct && strings.HasSuffix(t.PkgPath(), "/nasType")
}

// mutateMessage walks message -> body -> IEs; optional IEs (pointer fields)
// are dropped with probability 1/4, content octets re-randomised with 1/2.
func mutateMessage(v reflect.Value, r *Rng) {
	switch v.Kind() {
	case reflect.Ptr:
		if !v.IsNil() {
			mutateMessage(v.Elem(), r)
		}
	case reflect.Struct:
		t := v.Type()
		if isNasTypeIE(t) {
			mutateIE(v, r)
			return
		}
		for i := 0; i < v.NumField(); i++ {
			f := v.Field(i)
			if !f.CanSet() {
				continue
			}
			if f.Kind() == reflect.Ptr && !f.IsNil() && isNasTypeIE(f.Type().Elem()) {
				if r.Chance(25) {
					f.Set(reflect.Zero(f.Type()))
					continue
				}
			}
			if f.Kind() == reflect.Ptr || f.Kind() == reflect.Struct {
				mutateMessage(f, r)
			}
		}
	}
}

func mutateIE(v reflect.Value, r *Rng) {
	if !r.Bool() {
		return
	}
	t := v.Type()
	// header / identity octets of the message stay; only optional or LV content changes
	if strings.Contains(t.Name(), "MessageIdentity") || strings.Contains(t.Name(), "ProtocolDiscriminator") ||
		strings.Contains(t.Name(), "SecurityHeaderType") || strings.Contains(t.Name(), "PDUSessionID") ||
		strings.Contains(t.Name(), "PTI") {
		return
	}
	if f := directField(v, "Buffer"); f.IsValid() && f.Kind() == reflect.Slice && f.Type().Elem().Kind() == reflect.Uint8 && f.CanSet() {
		n := f.Len()
		lf := directField(v, "Len")
		if sb, ok := semanticBytes(r, strings.ToLower(t.Name())+" buffer"); ok && lf.IsValid() && lf.CanSet() &&
			(lf.Kind() == reflect.Uint16 || (lf.Kind() == reflect.Uint8 && len(sb) < 256)) && len(sb) > 0 {
			// well-formed contents of what this IE holds (variantOf checks that the message still decodes)
			nv := reflect.MakeSlice(f.Type(), len(sb), len(sb))
			reflect.Copy(nv, reflect.ValueOf(sb))
			f.Set(nv)
			lf.SetUint(uint64(len(sb)))
		} else if n > 0 && lf.IsValid() && lf.CanSet() && r.Chance(35) {
			// another length for a variable-length IE (variantOf keeps the variant only if
			// the message still decodes, i.e. the length is within the IE's bounds)
			k := 1 + r.Intn(48)
			if r.Bool() {
				k = 1 + r.Intn(n+8)
			}
			if lf.Kind() == reflect.Uint16 && r.Chance(12) {
				// a container of kilobytes, up to the 64 KiB a 16-bit length allows: where
				// buffers grow, pools refuse to take a buffer back and copies are skipped
				k = 1024 << uint(r.Intn(6))
				k += r.Intn(k)
				if k > 65535 {
					k = 65535 - r.Intn(64)
				}
			}
			if lf.Kind() == reflect.Uint8 && k > 255 {
				k = 255
			}
			nv := reflect.MakeSlice(f.Type(), k, k)
			reflect.Copy(nv, reflect.ValueOf(r.Bytes(k)))
			f.Set(nv)
			lf.SetUint(uint64(k))
		} else if n > 0 {
			nb := r.Bytes(n)
			reflect.Copy(f, reflect.ValueOf(nb))
		}
	}
	if f := directField(v, "Octet"); f.IsValid() && f.CanSet() {
		switch f.Kind() {
		case reflect.Uint8:
			if _, hasIei := t.FieldByName("Iei"); hasIei {
				f.SetUint(uint64(r.Intn(256)))
			} else {
				// type-1 IEs carry their IEI in the high nibble when optional: keep it
				f.SetUint(f.Uint()&0xf0 | uint64(r.Intn(16)))
			}
		case reflect.Array:
			if f.Type().Elem().Kind() == reflect.Uint8 {
				nb := r.Bytes(f.Len())
				reflect.Copy(f, reflect.ValueOf(nb))
			}
		}
	}
}

// collectIEs returns pointers to all IEs reachable from a message.
func collectIEs(v reflect.Value) []reflect.Value {
	var out []reflect.Value
	var walk func(v reflect.Value, depth int)
	walk = func(v reflect.Value, depth int) {
		if depth > 12 {
			return
		}
		switch v.Kind() {
		case reflect.Ptr:
			if !v.IsNil() {
				walk(v.Elem(), depth+1)
			}
		case reflect.Struct:
			if isNasTypeIE(v.Type()) {
				if v.CanAddr() {
					out = append(out, v.Addr())
				}
				return
			}
			for i := 0; i < v.NumField(); i++ {
				f := v.Field(i)
				if f.Kind() == reflect.Ptr || f.Kind() == reflect.Struct {
					walk(f, depth+1)
				}
			}
		}
	}
	walk(v, 0)
	return out
}

// getterSweep calls every declared zero-argument Get* method of the IE that
// p points to (keep decides per method); results are appended to out.
func getterSweep(p reflect.Value, keep func() bool, out *[]interface{}) {
	t := p.Type()
	et := t.Elem()
	pkg := et.PkgPath()
	rel := pkg[strings.LastIndex(pkg, "/")+1:]
	for m := 0; m < t.NumMethod(); m++ {
		mm := t.Method(m)
		if !strings.HasPrefix(mm.Name, "Get") || mm.Type.NumIn() != 1 {
			continue
		}
		if _, declared := RegMethodParams[rel+"."+et.Name()+"."+mm.Name]; !declared {
			continue
		}
		if !keep() {
			continue
		}
		rs := p.Method(m).Call(nil)
		for _, rv := range rs {
			*out = append(*out, rv.Interface())
		}
	}
}

// deepTargets collects pointers to the structures nested in v (fields, the first
// slice elements, pointees; depth-limited) whose types declare methods.
func deepTargets(v reflect.Value, depth int, out *[]reflect.Value) {
	if depth > 4 || len(*out) >= 24 || !v.IsValid() {
		return
	}
	switch v.Kind() {
	case reflect.Ptr:
		if !v.IsNil() {
			deepTargets(v.Elem(), depth, out)
		}
	case reflect.Interface:
		if !v.IsNil() {
			deepTargets(v.Elem(), depth+1, out)
		}
	case reflect.Slice, reflect.Array:
		for i := 0; i < v.Len() && i < 3; i++ {
			deepTargets(v.Index(i), depth+1, out)
		}
	case reflect.Struct:
		if v.CanAddr() && v.Type().Name() != "" {
			if p := v.Addr(); p.CanInterface() && len(declaredMethods(p.Type())) > 0 {
				*out = append(*out, p)
			}
		}
		for i := 0; i < v.NumField(); i++ {
			if v.Type().Field(i).PkgPath == "" {
				deepTargets(v.Field(i), depth+1, out)
			}
		}
	}
}

// deepUse calls a few seeded methods of the structures nested in root.
func deepUse(root reflect.Value, r *Rng, out *[]interface{}) {
	var targets []reflect.Value
	deepTargets(root, 0, &targets)
	if len(targets) == 0 {
		return
	}
	for k, n := 0, 2+r.Intn(5); k < n; k++ {
		tg := targets[r.Intn(len(targets))]
		ms := declaredMethods(tg.Type())
		mi := ms[r.Intn(len(ms))]
		mm := tg.Type().Method(mi)
		et := tg.Type().Elem()
		args, ok := SynthArgs(r, mm.Type, RegMethodParams[relPkg(et)+"."+et.Name()+"."+mm.Name], 1, et.Name()+"."+mm.Name)
		if !ok {
			continue
		}
		func() {
			defer func() {
				if pv := recover(); pv != nil {
					if vsimrt.IsAbort(pv) || vsimrt.IsRunaway(pv) {
						panic(pv)
					}
					*out = append(*out, fmt.Sprint(et.Name(), ".", mm.Name, " panic:", pv))
				}
			}()
			*out = append(*out, et.Name()+"."+mm.Name)
			*out = append(*out, ifaces(tg.Method(mi).Call(args))...)
		}()
	}
}

// setterSweep calls a seeded subset of the Set* methods declared on the IE p points
// to, with synthesised arguments; panics are outcomes.
func setterSweep(p reflect.Value, r *Rng, density int, out *[]interface{}) {
	t := p.Type()
	et := t.Elem()
	pkg := et.PkgPath()
	rel := pkg[strings.LastIndex(pkg, "/")+1:]
	for m := 0; m < t.NumMethod(); m++ {
		mm := t.Method(m)
		if !strings.HasPrefix(mm.Name, "Set") {
			continue
		}
		params, declared := RegMethodParams[rel+"."+et.Name()+"."+mm.Name]
		if !declared || !r.Chance(density) {
			continue
		}
		args, ok := SynthArgs(r, mm.Type, params, 1, mm.Name)
		if !ok {
			continue
		}
		func() {
			defer func() {
				if pv := recover(); pv != nil {
					if vsimrt.IsAbort(pv) || vsimrt.IsRunaway(pv) {
						panic(pv)
					}
					*out = append(*out, fmt.Sprint(mm.Name, " panic:", pv))
				}
			}()
			p.Method(m).Call(args)
		}()
	}
}

// ---- building instances ----

func ifaces(vs []reflect.Value) []interface{} {
	out := make([]interface{}, len(vs))
	for i, v := range vs {
		if v.IsValid() && v.CanInterface() {
			out[i] = v.Interface()
		}
	}
	return out
}

// Build instantiates an operation. task is the executing task's index (used by
// the recycle mode to find its pair).
func (c *Catalogue) Build(spec OpSpec, env *Env, task int) *Inst {
	if spec.Warm > 0 || spec.Cool > 0 {
		return c.buildWarm(spec, env, task)
	}
	r := NewRng(Mix(spec.Seed, Hash64(spec.Fam+"/"+spec.Name)))
	in := &Inst{Spec: spec}
	switch spec.Fam {
	case "noop":
		in.Do = func() []interface{} { return nil }
	case "decode", "decodebad", "encode", "reencode", "redecode":
		c.buildCodec(in, r)
	case "sec":
		c.buildSec(in, r)
	case "fn":
		f := c.Funcs[spec.Name]
		if f == nil {
			return c.missing(in)
		}
		args, ok := SynthArgs(r, f.Fn.Type(), f.Params, 0, f.Name)
		if !ok {
			return c.missing(in)
		}
		if spec.Var != 0 {
			perturbArgs(args, NewRng(spec.Var))
		}
		in.Args = ifaces(args)
		fn := f.Fn
		in.Do = func() []interface{} { return ifaces(fn.Call(args)) }
	case "method":
		mr, ok := c.Methods[spec.Name]
		if !ok {
			return c.missing(in)
		}
		recv := c.newReceiver(mr.T.T, r)
		m := recv.MethodByName(mr.Method)
		if !m.IsValid() {
			return c.missing(in)
		}
		mt, _ := recv.Type().MethodByName(mr.Method)
		args, ok := SynthArgs(r, mt.Type, mr.Params, 1, mr.T.Name+"."+mr.Method)
		if !ok {
			return c.missing(in)
		}
		if spec.Var != 0 {
			perturbArgs(append([]reflect.Value{recv}, args...), NewRng(spec.Var))
		}
		in.Args = append([]interface{}{recv.Interface()}, ifaces(args)...)
		in.Do = func() []interface{} { return ifaces(m.Call(args)) }
	case "accessors":
		t := c.Types[spec.Name]
		if t == nil {
			return c.missing(in)
		}
		c.buildAccessors(in, t, r)
	case "chain":
		t := c.Types[spec.Name]
		if t == nil {
			return c.missing(in)
		}
		c.buildChain(in, t, r)
	case "roundtrip":
		c.buildRoundtrip(in, r)
	case "hist":
		c.buildHist(in, r)
	case "shget", "shenc", "shconv":
		c.buildShared(in, env, r)
	case "rcdecode", "rcsend", "rcuse", "rcrecv", "rcover":
		c.buildRecycle(in, env, task, r)
	default:
		return c.missing(in)
	}
	if in.Do == nil {
		return c.missing(in)
	}
	return in
}

// buildWarm: see OpSpec.Warm. All repetitions are built here (on the goroutine that
// builds the run), only the calls themselves happen inside the operation.
func (c *Catalogue) buildWarm(spec OpSpec, env *Env, task int) *Inst {
	n, cool := spec.Warm, false
	if spec.Cool > 0 {
		n, cool = spec.Cool, true
	}
	spec.Warm, spec.Cool = 0, 0
	in := c.Build(spec, env, task)
	wr := NewRng(Mix(spec.Seed, 0x7761726d))
	var pool [8]uint64
	for i := range pool {
		pool[i] = wr.U64()
	}
	warm := make([]*Inst, 0, n)
	for i := 0; i < n; i++ {
		ws := OpSpec{Fam: spec.Fam, Name: spec.Name, Seed: wr.U64()}
		if wr.Bool() {
			ws.Seed = pool[wr.Intn(len(pool))]
		}
		warm = append(warm, c.Build(ws, env, task))
	}
	// every repetition has a yield budget of its own (the library has inputs on which
	// it never returns, e.g. nasConvert.LadnToModels on a zero length octet: such a
	// repetition is cut off and the next one starts - it must not use up the budget of
	// the recorded call, whose sequential reference is taken without any warm-up)
	perRep := int64(20000)
	if i, ok := c.entryIndex()[spec.Fam+"/"+spec.Name]; ok && i < len(c.Cost) {
		perRep = 20*int64(c.Cost[i]) + 2000
	}
	do := in.Do
	in.Do = func() []interface{} {
		var res []interface{}
		if cool {
			res = do()
		}
		func() {
			vsimrt.SetQuiet(true)
			defer vsimrt.SetQuiet(false)
			for _, w := range warm {
				vsimrt.ArmLimit(perRep)
				warmCall(w)
			}
		}()
		if vsimrt.Active() {
			vsimrt.ArmLimit(simCap)
		} else {
			vsimrt.ArmLimit(maxBaselineYields + 1)
		}
		if !cool {
			res = do()
		}
		return res
	}
	if cool {
		in.Spec.Cool = n
	} else {
		in.Spec.Warm = n
	}
	return in
}

var entryIdx map[string]int

func (c *Catalogue) entryIndex() map[string]int {
	if entryIdx == nil {
		entryIdx = map[string]int{}
		for i, e := range c.Entries {
			entryIdx[e.Fam+"/"+e.Name] = i
		}
	}
	return entryIdx
}

// warmCall runs one discarded repetition. A library panic ends that repetition only
// (a server recovers from a handler that panicked and carries on), and so does the
// repetition's own yield budget; an injected abort ends the whole operation.
func warmCall(w *Inst) {
	defer func() {
		if p := recover(); p != nil && vsimrt.IsAbort(p) {
			panic(p)
		}
	}()
	w.Do()
}

// missing: the operation does not exist on this tree (e.g. a replay file from
// another tree). It becomes a no-op whose outcome is the constant "missing".
func (c *Catalogue) missing(in *Inst) *Inst {
	in.Do = func() []interface{} { return []interface{}{"<missing op>"} }
	in.Args = nil
	return in
}

func (c *Catalogue) newReceiver(t reflect.Type, r *Rng) reflect.Value {
	s := &synth{r: r, sibling: -1}
	v, _ := s.value(t, t.Name(), 0)
	p := reflect.New(t)
	if v.IsValid() {
		p.Elem().Set(v)
	}
	return p
}

func (c *Catalogue) sampleByName(name string) *Sample {
	for i := range c.Samples {
		if c.Samples[i].Name == name {
			return &c.Samples[i]
		}
	}
	return nil
}

func (c *Catalogue) buildCodec(in *Inst, r *Rng) {
	s := c.sampleByName(in.Spec.Name)
	if s == nil {
		return
	}
	var data []byte
	if s.OK {
		data = variantOf(s.Data, r)
	} else {
		data = append([]byte(nil), s.Data...)
	}
	switch in.Spec.Fam {
	case "decodebad":
		// several damaged copies per operation: truncations (biased to the first 64
		// octets, where the header and the mandatory IEs are), byte flips, both. The
		// outcome of each is whatever the sequential baseline gives; the point is that
		// the error paths are executed by several tasks at once.
		base := data
		if !s.OK || r.Chance(30) {
			base = append([]byte(nil), s.Data...)
		}
		var inputs [][]byte
		for k := 0; k < 6; k++ {
			d := append([]byte(nil), base...)
			switch r.Intn(5) {
			case 0, 1, 2: // truncate
				if len(d) > 0 {
					cut := r.Intn(len(d))
					if len(d) > 64 && r.Chance(70) {
						cut = r.Intn(64)
					}
					d = d[:cut]
				}
			case 3: // flip bytes
				for j := 0; j < 1+r.Intn(4) && len(d) > 0; j++ {
					i := r.Intn(len(d))
					if len(d) > 64 && r.Bool() {
						i = r.Intn(64)
					}
					d[i] ^= byte(1 + r.Intn(255))
				}
			default: // truncate and flip
				if len(d) > 4 {
					d = d[:4+r.Intn(len(d)-4)]
					d[3+r.Intn(len(d)-3)] ^= 0xff
				}
			}
			inputs = append(inputs, d)
		}
		in.Args = []interface{}{&inputs}
		in.Do = func() []interface{} {
			var out []interface{}
			for i := range inputs {
				func() {
					defer func() {
						if p := recover(); p != nil {
							if vsimrt.IsAbort(p) || vsimrt.IsRunaway(p) {
								panic(p)
							}
							out = append(out, fmt.Sprint("panic:", p))
						}
					}()
					m := nas.NewMessage()
					err := m.PlainNasDecode(&inputs[i])
					out = append(out, err, m)
				}()
			}
			if r0 := len(inputs); r0 > 0 && in.Spec.Seed%16 == 0 {
				// the nil / empty corner of the entry point
				m := nas.NewMessage()
				out = append(out, m.PlainNasDecode(nil))
				empty := []byte{}
				out = append(out, m.PlainNasDecode(&empty))
			}
			return out
		}
		return
	case "decode":
		in.Args = []interface{}{&data}
		in.Do = func() []interface{} {
			m := nas.NewMessage()
			err := m.PlainNasDecode(&data)
			return []interface{}{err, m}
		}
	case "encode":
		m := nas.NewMessage()
		d := append([]byte(nil), data...)
		func() {
			defer func() { recover() }()
			_ = m.PlainNasDecode(&d)
		}()
		in.Args = []interface{}{m}
		if r.Bool() {
			in.Do = func() []interface{} {
				b, err := m.PlainNasEncode()
				return []interface{}{b, err}
			}
		} else {
			pre := r.Bytes(r.Intn(8))
			in.Do = func() []interface{} {
				buf := bytes.NewBuffer(append([]byte(nil), pre...))
				var err error
				if m.GmmMessage != nil {
					err = m.GmmMessageEncode(buf)
				} else {
					err = m.GsmMessageEncode(buf)
				}
				return []interface{}{buf.Bytes(), err}
			}
		}
	case "redecode":
		// a worker that keeps ONE message value and decodes packet after packet into it
		// (IEs embedded by value keep their storage across decodes)
		second := variantOf(s.Data, r)
		third := variantOf(s.Data, r)
		in.Args = []interface{}{&data, &second, &third}
		in.Do = func() []interface{} {
			m := nas.NewMessage()
			e1 := m.PlainNasDecode(&data)
			b1, _ := m.PlainNasEncode()
			e2 := m.PlainNasDecode(&second)
			b2, _ := m.PlainNasEncode()
			e3 := m.PlainNasDecode(&third)
			return []interface{}{e1, b1, e2, b2, e3, m}
		}
	case "reencode":
		in.Args = []interface{}{&data}
		// half of the time: decode, MODIFY the decoded message through the setters of its
		// IEs, encode - what a network function does when it forwards a message. A
		// decoder that hands out values it shares with other decoded messages (interned
		// IEs, table rows) is harmless until somebody writes to "their own" message.
		tweak := r.Bool()
		sub := r.Fork()
		in.Do = func() []interface{} {
			m := nas.NewMessage()
			if err := m.PlainNasDecode(&data); err != nil {
				return []interface{}{err}
			}
			var tw []interface{}
			if tweak {
				rr := *sub
				for _, ie := range collectIEs(reflect.ValueOf(m)) {
					setterSweep(ie, &rr, 40, &tw)
				}
			}
			b, err := m.PlainNasEncode()
			if err != nil {
				return []interface{}{m, err}
			}
			m2 := nas.NewMessage()
			err2 := m2.PlainNasDecode(&b)
			b2, err3 := m2.PlainNasEncode()
			return []interface{}{m, b, m2, err2, b2, err3, tw}
		}
	}
}

func (c *Catalogue) buildSec(in *Inst, r *Rng) {
	var key [16]byte
	copy(key[:], r.Bytes(16))
	count := uint32(r.boundaryUint(32))
	bearer := uint8(r.Intn(32))
	dir := uint8(r.Intn(2))
	if r.Chance(8) {
		bearer = uint8(r.Intn(256))
	}
	if r.Chance(8) {
		dir = uint8(r.Intn(256))
	}
	n := r.Len(300)
	isMac := strings.HasPrefix(in.Spec.Name, "NIA") || strings.HasPrefix(in.Spec.Name, "NASMac")
	if r.Chance(6) && (isMac || strings.HasSuffix(in.Spec.Name, "2") || strings.HasSuffix(in.Spec.Name, "/0")) {
		// PDUs beyond 2 and 4 KiB: affordable for the MAC functions (a handful of key-stream
		// words plus one multiplication per block), for AES and for the null algorithms
		n = 2100 + r.Intn(7000)
	}
	payload := r.Bytes(n)
	if r.Chance(4) {
		payload = nil
	}
	bits := uint32(0)
	if n > 0 {
		bits = uint32(8*n - r.Intn(8))
	}
	if in.Spec.Var != 0 {
		vr := NewRng(in.Spec.Var)
		switch vr.Intn(5) {
		case 0:
			key[vr.Intn(16)] ^= byte(1 << uint(vr.Intn(8)))
		case 1:
			bearer ^= byte(1 << uint(vr.Intn(5))) // same key and COUNT, another bearer
		case 4:
			dir ^= 1 // same key and COUNT, other direction
		case 2:
			if len(payload) > 0 {
				payload[vr.Intn(len(payload))] ^= byte(1 << uint(vr.Intn(8)))
			}
		default:
			count ^= 1 << uint(vr.Intn(32))
		}
	}
	in.Args = []interface{}{&key, &payload}
	name := in.Spec.Name
	switch {
	case strings.HasSuffix(name, "/invalid"):
		// the validation paths: unknown algorithm identity, bearer beyond 5 bits,
		// direction beyond 1 bit, nil payload - what a forged or corrupted PDU triggers
		alg := uint8(r.Intn(256))
		switch r.Intn(4) {
		case 0:
			alg = uint8(4 + r.Intn(252))
		case 1:
			bearer = uint8(32 + r.Intn(224))
		case 2:
			dir = uint8(2 + r.Intn(254))
		default:
			if r.Bool() {
				payload = nil
			} else {
				alg = uint8(4 + r.Intn(252))
			}
		}
		if strings.HasPrefix(name, "NASEncrypt/") {
			in.Do = func() []interface{} {
				err := security.NASEncrypt(alg, key, count, bearer, dir, payload)
				return []interface{}{err}
			}
		} else {
			in.Do = func() []interface{} {
				mac, err := security.NASMacCalculate(alg, key, count, bearer, dir, payload)
				return []interface{}{mac, err}
			}
		}
	case strings.HasPrefix(name, "NASEncrypt/"):
		alg := uint8(name[len(name)-1] - '0')
		in.Do = func() []interface{} {
			err := security.NASEncrypt(alg, key, count, bearer, dir, payload)
			return []interface{}{err}
		}
	case strings.HasPrefix(name, "NASMac/"):
		alg := uint8(name[len(name)-1] - '0')
		in.Do = func() []interface{} {
			mac, err := security.NASMacCalculate(alg, key, count, bearer, dir, payload)
			return []interface{}{mac, err}
		}
	case name == "NEA1":
		in.Do = func() []interface{} {
			o, err := security.NEA1(key, count, uint32(bearer&31), uint32(dir&1), payload, bits)
			return []interface{}{o, err}
		}
	case name == "NEA2":
		in.Do = func() []interface{} {
			o, err := security.NEA2(key, count, bearer&31, dir&1, payload)
			return []interface{}{o, err}
		}
	case name == "NEA3":
		in.Do = func() []interface{} {
			o, err := security.NEA3(key, count, bearer&31, dir&1, payload, bits)
			return []interface{}{o, err}
		}
	case name == "NIA1":
		in.Do = func() []interface{} {
			o, err := security.NIA1(key, count, bearer&31, uint32(dir&1), payload, uint64(bits))
			return []interface{}{o, err}
		}
	case name == "NIA2":
		in.Do = func() []interface{} {
			o, err := security.NIA2(key, count, bearer&31, dir&1, payload)
			return []interface{}{o, err}
		}
	case name == "NIA3":
		in.Do = func() []interface{} {
			o, err := security.NIA3(key, count, bearer&31, dir&1, payload, bits)
			return []interface{}{o, err}
		}
	case name == "snow3g":
		var k, iv [4]uint32
		for i := 0; i < 4; i++ {
			k[i] = uint32(r.U64())
			iv[i] = uint32(r.U64())
		}
		nw := r.Intn(80)
		in.Do = func() []interface{} { return []interface{}{snow3g.GetKeyStream(k, iv, nw)} }
	case name == "zuc":
		k, iv := r.Bytes(16), r.Bytes(16)
		nw := uint32(r.Intn(80))
		in.Args = []interface{}{&k, &iv}
		in.Do = func() []interface{} { return []interface{}{zuc.Zuc(k, iv, nw)} }
	case strings.HasPrefix(name, "protect/"):
		// what an AMF does per NAS message: cipher, MAC, then verify and decipher
		alg := uint8(name[len(name)-1] - '0')
		if payload == nil {
			payload = []byte{}
		}
		bearer &= 31
		dir &= 1
		in.Do = func() []interface{} {
			plain := append([]byte(nil), payload...)
			err1 := security.NASEncrypt(alg, key, count, bearer, dir, payload)
			mac, err2 := security.NASMacCalculate(alg, key, count, bearer, dir, payload)
			ct := append([]byte(nil), payload...)
			mac2, err3 := security.NASMacCalculate(alg, key, count, bearer, dir, ct)
			err4 := security.NASEncrypt(alg, key, count, bearer, dir, ct)
			return []interface{}{err1, mac, err2, mac2, err3, err4, bytes.Equal(ct, plain)}
		}
	}
}

func (c *Catalogue) buildAccessors(in *Inst, t *RegType, r *Rng) {
	recv := c.newReceiver(t.T, r)
	if in.Spec.Var != 0 {
		perturbArgs([]reflect.Value{recv}, NewRng(in.Spec.Var))
	}
	pt := recv.Type()
	type call struct {
		m    reflect.Value
		args []reflect.Value
	}
	var setters, setters2, getters []call
	for m := 0; m < pt.NumMethod(); m++ {
		mm := pt.Method(m)
		key := t.Pkg + "." + t.Name + "." + mm.Name
		params, declared := RegMethodParams[key]
		if !declared {
			continue
		}
		switch {
		case strings.HasPrefix(mm.Name, "Get") && mm.Type.NumIn() == 1:
			getters = append(getters, call{m: recv.Method(m)})
		case strings.HasPrefix(mm.Name, "Set"):
			if r.Chance(60) {
				args, ok := SynthArgs(r, mm.Type, params, 1, mm.Name)
				if ok {
					setters = append(setters, call{m: recv.Method(m), args: args})
				}
			}
			if r.Chance(50) {
				// a second round with other arguments: set short then long, long then short
				args, ok := SynthArgs(r, mm.Type, params, 1, mm.Name)
				if ok {
					setters2 = append(setters2, call{m: recv.Method(m), args: args})
				}
			}
		}
	}
	in.Args = []interface{}{recv.Interface()}
	in.Do = func() []interface{} {
		var out []interface{}
		sweep := func() {
			for _, g := range getters {
				func() {
					defer func() {
						if p := recover(); p != nil {
							if vsimrt.IsAbort(p) || vsimrt.IsRunaway(p) {
								panic(p)
							}
							out = append(out, fmt.Sprint("panic:", p))
						}
					}()
					for _, rv := range g.m.Call(nil) {
						out = append(out, rv.Interface())
					}
				}()
			}
		}
		sweep()
		for round, list := range [][]call{setters, setters2} {
			if round == 1 && len(list) == 0 {
				break
			}
			for _, s := range list {
				func() {
					defer func() {
						if p := recover(); p != nil {
							if vsimrt.IsAbort(p) || vsimrt.IsRunaway(p) {
								panic(p)
							}
							out = append(out, fmt.Sprint("panic:", p))
						}
					}()
					s.m.Call(s.args)
				}()
			}
			sweep()
		}
		return out
	}
}

func (c *Catalogue) buildRoundtrip(in *Inst, r *Rng) {
	find := func(key string) reflect.Type {
		if t := c.Types[key]; t != nil {
			return t.T
		}
		return nil
	}
	marshalUnmarshal := func(tkey, marshal, unmarshal string) {
		t := find(tkey)
		if t == nil {
			return
		}
		recv := c.newReceiver(t, r)
		mm := recv.MethodByName(marshal)
		if !mm.IsValid() {
			return
		}
		in.Args = []interface{}{recv.Interface()}
		// half of the time the decoded value is then USED: methods of the structures
		// nested in it (fields, slice elements), with synthesised arguments - a parser
		// that equips what it builds with shared helpers (one table, one allocator for
		// all decoded values) is harmless until those are called
		deep := r.Bool()
		sub := r.Fork()
		in.Do = func() []interface{} {
			rs := mm.Call(nil)
			out := ifaces(rs)
			if len(rs) == 0 || rs[0].Type() != byteSliceType {
				return out
			}
			back := reflect.New(t)
			um := back.MethodByName(unmarshal)
			if !um.IsValid() {
				return out
			}
			rs2 := um.Call([]reflect.Value{rs[0]})
			out = append(out, ifaces(rs2)...)
			if deep {
				rr := *sub
				deepUse(back, &rr, &out)
			}
			out = append(out, back.Interface())
			return out
		}
	}
	if pair, ok := c.autoRT[in.Spec.Name]; ok {
		marshalUnmarshal(in.Spec.Name, pair[0], pair[1])
		return
	}
	switch in.Spec.Name {
	case "qosrules":
		marshalUnmarshal("nasType.QoSRules", "MarshalBinary", "UnmarshalBinary")
	case "qosflow":
		marshalUnmarshal("nasType.QoSFlowDescs", "MarshalBinary", "UnmarshalBinary")
	case "pco":
		marshalUnmarshal("nasConvert.ProtocolConfigurationOptions", "Marshal", "UnMarshal")
	case "uepolicy":
		marshalUnmarshal("uePolicyContainer.UePolDeliverySer", "UePolDeliverySerEncode", "UePolDeliverySerDecode")
	}
}

func (c *Catalogue) buildHist(in *Inst, r *Rng) {
	switch in.Spec.Name {
	case "count":
		n := 4 + r.Intn(24)
		ops := make([]uint32, n)
		for i := range ops {
			ops[i] = uint32(r.U64())
		}
		in.Do = func() []interface{} {
			var cnt security.Count
			var out []interface{}
			for _, o := range ops {
				switch o % 7 {
				case 0:
					cnt.Set(uint16(o>>8), uint8(o>>24))
				case 1:
					cnt.SetSQN(uint8(o >> 8))
				case 2:
					cnt.SetOverflow(uint16(o >> 8))
				case 3, 4:
					cnt.AddOne()
				case 5:
					out = append(out, cnt.SQN(), cnt.Overflow())
				case 6:
					out = append(out, cnt.Get())
				}
			}
			out = append(out, cnt.Get())
			return out
		}
	case "idgen":
		lo := int64(r.Intn(10))
		size := int64(1 + r.Intn(8))
		n := 4 + r.Intn(24)
		ops := make([]uint32, n)
		for i := range ops {
			ops[i] = uint32(r.U64())
		}
		in.Do = func() []interface{} {
			g := uePolicyContainer.NewGenerator(lo, lo+size-1)
			var out []interface{}
			var live []int64
			for _, o := range ops {
				switch o % 4 {
				case 0, 1:
					id, err := g.Allocate()
					out = append(out, id, err)
					if err == nil {
						live = append(live, id)
					}
				case 2:
					a := int64(o>>8) % size
					b := int64(o>>16) % size
					id, err := g.Allocate_inRange(a, b)
					out = append(out, id, err)
					if err == nil {
						live = append(live, id)
					}
				case 3:
					if len(live) > 0 {
						k := int(o>>8) % len(live)
						g.FreeID(live[k])
						live = append(live[:k], live[k+1:]...)
					}
				}
			}
			return out
		}
	}
}

func (c *Catalogue) buildShared(in *Inst, env *Env, r *Rng) {
	if env == nil || env.Shared == nil {
		return
	}
	m := env.Shared
	ies := env.SharedIEs
	switch in.Spec.Fam {
	case "shget":
		// decide the subset up front so that the op is a pure function of its spec
		sub := r.Fork()
		density := 30 + r.Intn(70)
		in.Do = func() []interface{} {
			rr := *sub
			var out []interface{}
			for _, p := range ies {
				getterSweep(p, func() bool { return rr.Chance(density) }, &out)
			}
			out = append(out, m.GmmMessage != nil, m.GsmMessage != nil)
			if m.GmmMessage != nil {
				out = append(out, m.GmmHeader.GetMessageType(), m.GmmHeader.GetExtendedProtocolDiscriminator())
			}
			if m.GsmMessage != nil {
				out = append(out, m.GsmHeader.GetMessageType(), m.GsmHeader.GetExtendedProtocolDiscriminator())
			}
			// read-style methods declared on the message containers themselves
			// (follows the tree: a String(), Len(), IsXxx() added by a change is called too)
			for _, holder := range messageHolders(m) {
				readerSweep(holder, &out)
			}
			return out
		}
	case "shenc":
		if r.Bool() {
			in.Do = func() []interface{} {
				b, err := m.PlainNasEncode()
				return []interface{}{b, err}
			}
		} else {
			in.Do = func() []interface{} {
				buf := new(bytes.Buffer)
				var err error
				if m.GmmMessage != nil {
					err = m.GmmMessageEncode(buf)
				} else if m.GsmMessage != nil {
					err = m.GsmMessageEncode(buf)
				}
				return []interface{}{buf.Bytes(), err}
			}
		}
	case "shconv":
		// read-only conversion helpers on the IEs of the shared message
		type job struct {
			f   reflect.Value
			arg reflect.Value
		}
		var jobs []job
		for _, cr := range c.convRead {
			for _, p := range ies {
				switch {
				case cr.In == p.Type():
					jobs = append(jobs, job{cr.F.Fn, p})
				case cr.In == p.Type().Elem():
					jobs = append(jobs, job{cr.F.Fn, p.Elem()})
				case cr.In == byteSliceType:
					if b := directField(p.Elem(), "Buffer"); b.IsValid() && b.Type() == byteSliceType && r.Chance(20) {
						jobs = append(jobs, job{cr.F.Fn, b})
					}
				}
			}
		}
		// parsers of IE contents applied to the shared IE's bytes (QoS rules, flow
		// descriptions, PCO, UE policy structures): reading the shared buffer into a
		// private structure
		rtKeys := make([]string, 0, len(c.autoRT))
		for key := range c.autoRT {
			rtKeys = append(rtKeys, key)
		}
		sort.Strings(rtKeys) // never iterate a map in a decision path: the job list must be a function of the seed
		for _, key := range rtKeys {
			pair := c.autoRT[key]
			t := c.Types[key]
			if t == nil {
				continue
			}
			for _, p := range ies {
				b := directField(p.Elem(), "Buffer")
				if !b.IsValid() || b.Type() != byteSliceType || b.Len() == 0 || !r.Chance(4) {
					continue
				}
				um := reflect.New(t.T).MethodByName(pair[1])
				if um.IsValid() {
					jobs = append(jobs, job{um, b})
				}
			}
		}
		// helpers with several parameters: the ones that match an IE of the message come
		// from it, the others are synthesised
		for i := range RegFuncs {
			f := &RegFuncs[i]
			ft := f.Fn.Type()
			if f.Pkg != "nasConvert" || ft.NumIn() < 2 || ft.IsVariadic() || !r.Chance(50) {
				continue
			}
			args, ok := SynthArgs(r.Fork(), ft, f.Params, 0, f.Name)
			if !ok {
				continue
			}
			used := false
			for k := 0; k < ft.NumIn(); k++ {
				for _, p := range ies {
					if ft.In(k) == p.Type() {
						args[k], used = p, true
					} else if ft.In(k) == p.Type().Elem() {
						args[k], used = p.Elem(), true
					}
				}
			}
			if used {
				fn, as := f.Fn, args
				jobs = append(jobs, job{reflect.ValueOf(func(reflect.Value) []reflect.Value { return fn.Call(as) }), reflect.Value{}})
			}
		}
		if len(jobs) > 24 {
			// deterministic subset
			for i := len(jobs) - 1; i > 0; i-- {
				j := r.Intn(i + 1)
				jobs[i], jobs[j] = jobs[j], jobs[i]
			}
			jobs = jobs[:24]
		}
		in.Do = func() []interface{} {
			var out []interface{}
			for _, j := range jobs {
				func() {
					defer func() {
						if p := recover(); p != nil {
							if vsimrt.IsAbort(p) {
								panic(p)
							}
							if vsimrt.IsRunaway(p) {
								// one helper that does not terminate on this IE (C14 territory)
								// must not cost the other helpers their co-visits
								out = append(out, "<yield budget exceeded>")
								return
							}
							out = append(out, fmt.Sprint("panic:", p))
						}
					}()
					vsimrt.ArmLimit(60000)
					if !j.arg.IsValid() {
						// multi-parameter helper wrapped in a closure
						rs := j.f.Call([]reflect.Value{reflect.ValueOf(reflect.Value{})})
						if len(rs) == 1 {
							if vs, ok := rs[0].Interface().([]reflect.Value); ok {
								out = append(out, ifaces(vs)...)
							}
						}
						return
					}
					out = append(out, ifaces(j.f.Call([]reflect.Value{j.arg}))...)
				}()
			}
			vsimrt.ArmLimit(0)
			return out
		}
	}
}

func (c *Catalogue) buildRecycle(in *Inst, env *Env, task int, r *Rng) {
	if env == nil || task/2 >= len(env.Pairs) {
		return
	}
	p := env.Pairs[task/2]
	switch in.Spec.Fam {
	case "rcdecode": // A: decode the packet sitting in the receive buffer
		in.Do = func() []interface{} {
			view := p.Buf[:p.N]
			err := p.Msg.PlainNasDecode(&view)
			return []interface{}{err, p.Msg}
		}
	case "rcsend": // A: hand the receive buffer back to the reader (release)
		in.Do = func() []interface{} {
			p.Flag.Store(true)
			return nil
		}
	case "rcuse": // A: keep working with the decoded message
		sub := r.Fork()
		in.Do = func() []interface{} {
			rr := *sub
			var out []interface{}
			func() {
				defer func() {
					if pv := recover(); pv != nil {
						if vsimrt.IsAbort(pv) || vsimrt.IsRunaway(pv) {
							panic(pv)
						}
						out = append(out, fmt.Sprint("panic:", pv))
					}
				}()
				for _, ie := range collectIEs(reflect.ValueOf(p.Msg)) {
					getterSweep(ie, func() bool { return rr.Chance(50) }, &out)
				}
				b, err := p.Msg.PlainNasEncode()
				out = append(out, b, err)
			}()
			return out
		}
	case "rcrecv": // B: wait for the buffer (acquire)
		in.Do = func() []interface{} {
			for !p.Flag.Load() {
				if !vsimrt.Active() {
					panic("recycle: receive before send in a sequential run")
				}
				vsimrt.YieldBlocked()
			}
			return nil
		}
	case "rcover": // B: the next packet arrives in the same buffer and is decoded
		in.Do = func() []interface{} {
			for i := range p.Buf {
				p.Buf[i] = 0xA5
			}
			copy(p.Buf, p.Pkt2)
			view := p.Buf[:len(p.Pkt2)]
			m := nas.NewMessage()
			err := m.PlainNasDecode(&view)
			return []interface{}{err, m}
		}
	}
}

// FamNames returns the names of a family in catalogue order.
func (c *Catalogue) FamNames(fam string) []string { return c.ByFam[fam] }

// SortedSkipped lists skipped catalogue candidates.
func (c *Catalogue) SortedSkipped() []string {
	var out []string
	for k, v := range c.Skipped {
		out = append(out, k+": "+v)
	}
	sort.Strings(out)
	return out
}

// perturbArgs changes one bit in one place of the argument list (see OpSpec.Var).
func perturbArgs(args []reflect.Value, r *Rng) {
	type leaf struct {
		v    reflect.Value
		kind int // 0 bytes, 1 uint, 2 int, 3 string
	}
	var leaves []leaf
	var walk func(v reflect.Value, depth int)
	walk = func(v reflect.Value, depth int) {
		if depth > 6 || !v.IsValid() {
			return
		}
		switch v.Kind() {
		case reflect.Ptr, reflect.Interface:
			if !v.IsNil() {
				walk(v.Elem(), depth+1)
			}
		case reflect.Struct:
			if v.Type() == timeType {
				return
			}
			for i := 0; i < v.NumField(); i++ {
				if v.Type().Field(i).PkgPath == "" {
					walk(v.Field(i), depth+1)
				}
			}
		case reflect.Slice, reflect.Array:
			if v.Len() == 0 {
				return
			}
			if v.Type().Elem().Kind() == reflect.Uint8 {
				if v.Index(0).CanSet() {
					leaves = append(leaves, leaf{v, 0})
				}
				return
			}
			for i := 0; i < v.Len() && i < 8; i++ {
				walk(v.Index(i), depth+1)
			}
		case reflect.Uint, reflect.Uint8, reflect.Uint16, reflect.Uint32, reflect.Uint64:
			if v.CanSet() {
				leaves = append(leaves, leaf{v, 1})
			}
		case reflect.Int, reflect.Int8, reflect.Int16, reflect.Int32, reflect.Int64:
			if v.CanSet() {
				leaves = append(leaves, leaf{v, 2})
			}
		case reflect.String:
			if v.CanSet() && v.Len() > 0 {
				leaves = append(leaves, leaf{v, 3})
			}
		}
	}
	for _, a := range args {
		walk(a, 0)
	}
	if len(leaves) == 0 {
		return
	}
	l := leaves[r.Intn(len(leaves))]
	switch l.kind {
	case 0:
		e := l.v.Index(r.Intn(l.v.Len()))
		e.SetUint(e.Uint() ^ uint64(1<<uint(r.Intn(8))))
	case 1:
		// low bits only: an integer may be a size, and sizes keep their guard rails
		l.v.SetUint(l.v.Uint() ^ uint64(1)<<uint(r.Intn(3)))
	case 2:
		l.v.SetInt(l.v.Int() ^ 1)
	case 3:
		b := []byte(l.v.String())
		i := r.Intn(len(b))
		switch {
		case r.Chance(25):
			b[i] = "xZ -"[r.Intn(4)]
		case b[i] >= '0' && b[i] <= '8':
			b[i]++
		case b[i] == '9':
			b[i] = '0'
		case b[i] >= 'a' && b[i] <= 'e':
			b[i]++
		default:
			b[i] ^= 1
		}
		l.v.SetString(string(b))
	}
}

// messageHolders: the message, its 5GMM / 5GSM part and the one populated body.
func messageHolders(m *nas.Message) []reflect.Value {
	out := []reflect.Value{reflect.ValueOf(m)}
	var part reflect.Value
	switch {
	case m.GmmMessage != nil:
		part = reflect.ValueOf(m.GmmMessage)
	case m.GsmMessage != nil:
		part = reflect.ValueOf(m.GsmMessage)
	default:
		return out
	}
	out = append(out, part)
	pe := part.Elem()
	for i := 0; i < pe.NumField(); i++ {
		f := pe.Field(i)
		if f.Kind() == reflect.Ptr && !f.IsNil() && f.Elem().Kind() == reflect.Struct {
			out = append(out, f)
		}
	}
	return out
}

var readerPrefixes = []string{"Get", "Is", "Has", "String", "Len", "Size", "Type", "Kind", "Name"}

// readerSweep calls the zero-argument read-style methods DECLARED on p's type
// (not the ones promoted from embedded IEs: those are reached through the IEs).
func readerSweep(p reflect.Value, out *[]interface{}) {
	t := p.Type()
	et := t.Elem()
	pkg := et.PkgPath()
	rel := pkg[strings.LastIndex(pkg, "/")+1:]
	for m := 0; m < t.NumMethod(); m++ {
		mm := t.Method(m)
		if mm.Type.NumIn() != 1 || mm.Type.NumOut() == 0 {
			continue
		}
		ok := false
		for _, pre := range readerPrefixes {
			if strings.HasPrefix(mm.Name, pre) {
				ok = true
				break
			}
		}
		if !ok {
			continue
		}
		if _, declared := RegMethodParams[rel+"."+et.Name()+"."+mm.Name]; !declared {
			continue
		}
		func() {
			defer func() {
				if pv := recover(); pv != nil {
					if vsimrt.IsAbort(pv) || vsimrt.IsRunaway(pv) {
						panic(pv)
					}
					*out = append(*out, fmt.Sprint("panic:", pv))
				}
			}()
			for _, rv := range p.Method(m).Call(nil) {
				*out = append(*out, rv.Interface())
			}
		}()
	}
}

type chainTarget struct {
	v       reflect.Value // pointer the methods are called on
	path    string
	methods []int // indices of the declared, synthesisable methods
}

func relPkg(t reflect.Type) string {
	pkg := t.PkgPath()
	return pkg[strings.LastIndex(pkg, "/")+1:]
}

// declaredMethods: methods declared on the element type of the pointer type pt
// (not promoted ones) whose parameters can be synthesised.
func declaredMethods(pt reflect.Type) []int {
	et := pt.Elem()
	if et.Name() == "" || !strings.Contains(et.PkgPath(), "free5gc/nas") {
		return nil
	}
	var out []int
	for m := 0; m < pt.NumMethod(); m++ {
		mm := pt.Method(m)
		params, declared := RegMethodParams[relPkg(et)+"."+et.Name()+"."+mm.Name]
		if !declared {
			continue
		}
		if _, ok := SynthArgs(NewRng(1), mm.Type, params, 1); !ok {
			continue
		}
		out = append(out, m)
	}
	return out
}

// chainTargets: the receiver itself and its exported struct-typed fields that have
// methods of their own (sublist.UpscGenerator, message.SecurityHeader, ...).
func (c *Catalogue) chainTargets(recv reflect.Value) []chainTarget {
	var out []chainTarget
	if ms := declaredMethods(recv.Type()); len(ms) >= 2 {
		out = append(out, chainTarget{recv, "", ms})
	}
	e := recv.Elem()
	if e.Kind() != reflect.Struct {
		return out
	}
	for i := 0; i < e.NumField(); i++ {
		f := e.Type().Field(i)
		if f.PkgPath != "" || f.Anonymous || f.Type.Kind() != reflect.Struct || !e.Field(i).CanAddr() {
			continue
		}
		p := e.Field(i).Addr()
		if ms := declaredMethods(p.Type()); len(ms) > 0 {
			out = append(out, chainTarget{p, "." + f.Name, ms})
		}
	}
	if len(out) == 1 && out[0].path == "" && len(out[0].methods) < 2 {
		return nil
	}
	return out
}

// buildChain: a multi-step protocol on ONE value - several of its methods (any
// kind: setters, encoders, decoders, allocators) and methods of its fields, one
// after the other, each with fresh arguments.
func (c *Catalogue) buildChain(in *Inst, t *RegType, r *Rng) {
	recv := c.newReceiver(t.T, r)
	if f := c.Funcs[t.Pkg+".New"+t.Name]; f != nil && r.Chance(35) {
		// the value as its constructor builds it (e.g. with a particular IEI)
		if args, ok := SynthArgs(r, f.Fn.Type(), f.Params, 0, f.Name); ok {
			func() {
				defer func() { recover() }()
				if rs := f.Fn.Call(args); len(rs) > 0 && rs[0].Type() == recv.Type() && !rs[0].IsNil() {
					recv = rs[0]
				}
			}()
		}
	}
	if in.Spec.Var != 0 {
		perturbArgs([]reflect.Value{recv}, NewRng(in.Spec.Var))
	}
	targets := c.chainTargets(recv)
	if len(targets) == 0 {
		return
	}
	type call struct {
		m    reflect.Value
		args []reflect.Value
		name string
	}
	var calls []call
	n := 3 + r.Intn(6)
	isConfig := func(name string) bool {
		for _, pre := range []string{"Set", "Add", "Append", "Init", "Reset", "With"} {
			if strings.HasPrefix(name, pre) {
				return true
			}
		}
		return false
	}
	for k := 0; k < n; k++ {
		// first half: configure the value (setters of the receiver); second half: use it
		// (any method, preferably of a field that has methods of its own)
		tg := targets[r.Intn(len(targets))]
		if k < n/2 && targets[0].path == "" {
			tg = targets[0]
		} else if k >= n/2 && len(targets) > 1 && r.Chance(60) {
			tg = targets[1+r.Intn(len(targets)-1)]
		}
		mi := tg.methods[r.Intn(len(tg.methods))]
		for tries := 0; tries < 6; tries++ {
			name := tg.v.Type().Method(mi).Name
			if (k < n/2) == isConfig(name) || r.Chance(25) {
				break
			}
			mi = tg.methods[r.Intn(len(tg.methods))]
		}
		mm := tg.v.Type().Method(mi)
		et := tg.v.Type().Elem()
		params := RegMethodParams[relPkg(et)+"."+et.Name()+"."+mm.Name]
		args, ok := SynthArgs(r, mm.Type, params, 1, et.Name()+"."+mm.Name)
		if !ok {
			continue
		}
		calls = append(calls, call{tg.v.Method(mi), args, tg.path + "." + mm.Name})
	}
	in.Args = []interface{}{recv.Interface()}
	in.Do = func() []interface{} {
		var out []interface{}
		for _, cl := range calls {
			func() {
				defer func() {
					if p := recover(); p != nil {
						if vsimrt.IsAbort(p) || vsimrt.IsRunaway(p) {
							panic(p)
						}
						out = append(out, fmt.Sprint(cl.name, " panic:", p))
					}
				}()
				out = append(out, ifaces(cl.m.Call(cl.args))...)
				out = append(out, ifaces(cl.args)...)
			}()
		}
		return out
	}
}
