#!/bin/bash
# developer helper: (re)build the instrumented race worker in a scratch dir
set -e
export GOFLAGS=-mod=mod GOPROXY=off GOSUMDB=off GOTOOLCHAIN=local
S=${1:-/var/tmp/vs1}; SRC=${2:-/repo}
cd /verif; go build -o bin/instrument ./sim/instrument
rm -rf $S/mod; mkdir -p $S && rsync -a --exclude .git $SRC/ $S/mod/
mkdir -p $S/gen
./bin/instrument -root $S/mod -out $S/gen -json $S/sites.json
mkdir -p $S/mod/zzverif/vsimrt $S/mod/zzverif/harness $S/mod/zzverif/simc19
cp sim/vsimrt/*.go $S/mod/zzverif/vsimrt/
cp sim/harness/*.go sim/corpus/corpus.txt $S/gen/*.go $S/mod/zzverif/harness/
cp sim/simc19/*.go $S/mod/zzverif/simc19/
cd $S/mod && go build -race -trimpath -o $S/simc19 ./zzverif/simc19
