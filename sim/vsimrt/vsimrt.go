// Package vsimrt is the deterministic scheduler runtime that is dropped into
// an instrumented scratch copy of free5gc/nas (never into /repo).
//
// Tasks are real goroutines, strictly serialised: exactly one runs, all others
// are parked in a raw read(2) on a private pipe. Hand-off is a raw write(2).
// Everything in this file that touches scheduler state is //go:norace and goes
// through raw syscalls only, so the race detector sees NO happens-before edge
// between tasks: a conflicting access by two tasks to the same memory is
// reported whatever the interleaving, while the interleaving itself (decided by
// a PRNG seeded from the run seed, or by a replay file) drives the
// sequential-equivalence oracle.
package vsimrt

import (
	"math"
	"runtime"
	"sync"
	"syscall"
	"unsafe"
)

const (
	MaxTasks    = 64
	maxSegments = 1 << 17
	Inf         = int64(1) << 60
)

// Site flags (filled from the instrumenter's table).
const (
	FlagHot      = 1 // statement touches package-level state / pool / fresh slice result
	FlagCanPanic = 2 // statement contains an operation that can panic at run time
)

// Segment: task Task ran for N yields, then was switched out at site Site.
type Segment struct {
	Task int32
	N    int64
	Site uint32
}

// Fault kinds.
const (
	FaultAbort = 1
	FaultGC    = 2
)

// Fault: delivered to Task when its task-local yield counter reaches At.
// For FaultAbort with Slack>0 delivery is postponed (at most Slack yields)
// until a site flagged FlagCanPanic is reached.
type Fault struct {
	Kind  int
	Task  int32
	At    int64
	Slack int64
	Fired bool
	// FiredAt: task-local yield index and site at which it was delivered
	FiredAt   int64
	FiredSite uint32
}

type Config struct {
	Seed uint64
	// generate mode
	MaxSwitches int64   // after this many context switches tasks run to completion (0 = 4000); bounds the cost of dense schedules on long operations
	MeanGap     int64   // mean number of yields between pre-emptions (geometric); 0 = never pre-empt mid-task
	SwitchAt    []int64 // explicit global yield indices of pre-emptions (PCT-style); overrides MeanGap while not exhausted
	HotBias     bool
	HotSlack    int64
	// HotOnly: in addition to the ordinary pre-emptions, pre-empt at every hot site
	// (a statement that touches package-level state or calls sync / sync/atomic) with
	// probability HotProb percent. This enumerates the interleavings of exactly those
	// statements densely - the shape of check-then-act windows on hidden shared state.
	HotOnly    bool
	HotProb    int64
	StallTask  int32 // -1 none: task excluded from choices for StallFor decisions after its first pre-emption
	StallFor   int
	StallSkip  int     // a stalled task is only frozen at its (StallSkip+1)-th pre-emption: the freeze point moves from "somewhere in the first call" to the first few hot sites it visits
	StallSet   []int32 // further tasks treated like StallTask (several callers frozen at their first pre-emption)
	LowPrio    int32   // -1 none: task only chosen when nothing else is runnable
	Faults     []Fault
	SiteFlags  []uint8
	NumSites   int
	Replay     []Segment // replay mode when Active && ReplayMode
	ReplayMode bool
	// Free: free-running mode for library code that starts goroutines or blocks on
	// channels (no seam for those): tasks are plain goroutines running truly in
	// parallel, Yield only calls runtime.Gosched now and then. The race and
	// equivalence oracles still apply; the schedule is not owned, hence not replayable.
	Free bool
}

// Stats of one run.
type Stats struct {
	Yields       int64
	Switches     int64
	HotSwitches  int64
	StallSkips   int64
	Segments     []Segment
	Truncated    bool
	SchedDigest  uint64
	ReplayDrift  bool // replay file named a finished task / ran out of segments while >1 task was alive
	BlockedSpins int64
	Hang         bool
}

type state struct {
	free      bool
	freeCount uint32
	active    bool
	counting  bool
	ycount    int64 // yields seen while inactive & counting (baseline)

	cfg      Config
	n        int32
	cur      int32
	budget   int64
	ran      int64 // yields executed in current segment
	slack    int64
	rng      uint64
	gyields  int64
	switches int64
	hotsw    int64
	stallsk  int64
	swIdx    int // index into cfg.SwitchAt
	rpIdx    int // index into cfg.Replay
	drift    bool
	trunc    bool
	nopre    int32
	spins    int64
	hang     bool

	done      [MaxTasks]bool
	preempted [MaxTasks]bool
	npre      [MaxTasks]int64
	quiet     [MaxTasks]bool // the task is inside discarded repetitions: no hot-site pre-emption (see SetQuiet)
	tyields   [MaxTasks]int64
	rfd       [MaxTasks]int32
	wfd       [MaxTasks]int32
	stallLeft int
	stalled   [MaxTasks]bool
	lockDepth [MaxTasks]int32
	opLimit   [MaxTasks]int64 // task-local yield count at which the current operation is cut off
	baseLimit int64           // same for the sequential baseline

	segs  []Segment
	nsegs int

	// coverage, accumulated across runs of this process
	siteMask  []uint64 // per run: bitmask of tasks that executed the site
	siteRun   []uint8  // per run: visits of a hot site so far (saturating; see the rare-site rule in Yield)
	rareSw    int64    // per run: pre-emptions made under the rare-site rule
	siteExec  []uint32 // across runs: saturating count of executions in simulation
	siteCo    []uint8  // across runs: 1 if ever executed by >=2 tasks in one run
	sitePre   []uint32 // across runs: pre-emptions at this site
	siteBase  []uint8  // executed in a baseline (inactive) run
	touchList []uint32 // sites touched in this run (for cheap reset)
	ntouch    int
}

var st state

// AbortSentinel is the panic value of an injected abort.
type AbortSentinel struct{ Task int32 }

var theAbort = &AbortSentinel{}

//go:norace
func splitmix(x *uint64) uint64 {
	*x += 0x9e3779b97f4a7c15
	z := *x
	z = (z ^ (z >> 30)) * 0xbf58476d1ce4e5b9
	z = (z ^ (z >> 27)) * 0x94d049bb133111eb
	return z ^ (z >> 31)
}

//go:norace
func rnd(n int64) int64 {
	if n <= 1 {
		return 0
	}
	return int64(splitmix(&st.rng) % uint64(n))
}

//go:norace
func rndFloat() float64 {
	return float64(splitmix(&st.rng)>>11) / float64(1<<53)
}

// InitSites sizes the coverage tables; called once per process.
//
//go:norace
func InitSites(n int) {
	st.siteMask = make([]uint64, n)
	st.siteRun = make([]uint8, n)
	st.siteExec = make([]uint32, n)
	st.siteCo = make([]uint8, n)
	st.sitePre = make([]uint32, n)
	st.siteBase = make([]uint8, n)
	st.touchList = make([]uint32, n)
	st.segs = make([]Segment, maxSegments)
}

// ResetBase clears the "executed in a baseline" marks (probe step: per-entry reach).
//
//go:norace
func ResetBase() {
	for i := range st.siteBase {
		st.siteBase[i] = 0
	}
}

// BaseHit reports whether any site carrying the flag was executed since ResetBase.
//
//go:norace
func BaseHit(flags []uint8, flag uint8) bool {
	for i := range st.siteBase {
		if st.siteBase[i] != 0 && i < len(flags) && flags[i]&flag != 0 {
			return true
		}
	}
	return false
}

// BaseSites lists the sites executed since ResetBase (probe step).
//
//go:norace
func BaseSites() []uint32 {
	var out []uint32
	for i := range st.siteBase {
		if st.siteBase[i] != 0 {
			out = append(out, uint32(i))
		}
	}
	return out
}

// SetQuiet marks the running task as being inside discarded repetitions of a
// long-lived caller (or not). Hot-site pre-emption has an allowance of 4 000 switches
// per run; spent on thousands of discarded calls it is gone before the calls whose
// results are compared are reached. Ordinary pre-emptions (the run's K points) and the
// rare-site rule are not affected, so discarded calls still interleave with the rest.
//
//go:norace
func SetQuiet(on bool) {
	if st.active && !st.free {
		st.quiet[st.cur] = on
	}
}

// SetCounting switches baseline yield counting on or off (simulation inactive).
//
//go:norace
func SetCounting(on bool) { st.counting = on }

// Count returns the yield counter seen by the caller: the running task's local
// counter during simulation, the baseline counter otherwise.
//
//go:norace
func Count() int64 {
	if st.free {
		return 0
	}
	if st.active {
		return st.tyields[st.cur]
	}
	return st.ycount
}

// Active reports whether a simulation is running.
//
//go:norace
func Active() bool { return st.active || st.free }

// Cur returns the running task id (simulation only).
//
//go:norace
func Cur() int32 { return st.cur }

// Yield is spliced before every statement of the library by the instrumenter.
//
//go:norace
func Yield(site uint32) {
	if st.free {
		// benignly racy counter (this function is not instrumented); any goroutine,
		// including ones the library started itself, may come through here
		n := st.freeCount
		st.freeCount = n + 1
		if int(site) < len(st.siteExec) && st.siteExec[site] != ^uint32(0) {
			st.siteExec[site]++
		}
		if n%7 == 0 {
			runtime.Gosched()
		}
		return
	}
	if !st.active {
		if st.counting {
			st.ycount++
			if int(site) < len(st.siteBase) {
				st.siteBase[site] = 1
			}
			if st.baseLimit > 0 && st.ycount >= st.baseLimit {
				st.baseLimit = 0
				panic(theRunaway)
			}
		}
		return
	}
	me := st.cur
	st.gyields++
	st.tyields[me]++
	st.ran++
	if st.opLimit[me] > 0 && st.tyields[me] >= st.opLimit[me] {
		st.opLimit[me] = 0
		panic(theRunaway)
	}
	if int(site) < len(st.siteMask) {
		m := st.siteMask[site]
		if m == 0 {
			st.touchList[st.ntouch] = site
			st.ntouch++
		}
		st.siteMask[site] = m | (1 << uint(me))
		if st.siteExec[site] != ^uint32(0) {
			st.siteExec[site]++
		}
	}
	if len(st.cfg.Faults) != 0 {
		deliverFaults(me, site)
	}
	if !st.cfg.ReplayMode && st.nopre == 0 && int(site) < len(st.cfg.SiteFlags) && st.cfg.SiteFlags[site]&FlagHot != 0 &&
		int(site) < len(st.siteRun) && st.siteRun[site] < 2 {
		// Rare-site rule: the first two visits of every hot site in a run are pre-emption
		// candidates of their own (60 % each), whatever the run's pre-emption budget has
		// already been spent on. In a long-lived caller the statements that matter - the
		// switch to a fresh arena chunk, the rebuild of a table after N calls, the slow
		// path of a cache - run once in ten thousand calls, long after ordinary hot-site
		// pre-emption has used up its allowance on the statements of the fast path.
		st.siteRun[site]++
		if st.rareSw < 256 && rnd(100) < 60 {
			st.rareSw++
			st.budget--
			switchOut(site, false)
			return
		}
	}
	if st.cfg.HotOnly && !st.quiet[me] && !st.cfg.ReplayMode && st.nopre == 0 && int(site) < len(st.cfg.SiteFlags) &&
		st.cfg.SiteFlags[site]&FlagHot != 0 && st.switches < 4000 && rnd(100) < st.cfg.HotProb {
		// extra pre-emption right before a statement that touches hidden shared state
		st.budget--
		switchOut(site, false)
		return
	}
	st.budget--
	if st.budget > 0 || st.nopre > 0 {
		return
	}
	if !st.cfg.ReplayMode && st.cfg.HotBias && st.slack < st.cfg.HotSlack &&
		int(site) < len(st.cfg.SiteFlags) && st.cfg.SiteFlags[site]&FlagHot == 0 {
		st.slack++
		st.budget = 1
		return
	}
	st.slack = 0
	switchOut(site, false)
}

//go:norace
func deliverFaults(me int32, site uint32) {
	ty := st.tyields[me]
	for i := range st.cfg.Faults {
		f := &st.cfg.Faults[i]
		if f.Fired || f.Task != me || ty < f.At {
			continue
		}
		switch f.Kind {
		case FaultGC:
			f.Fired = true
			f.FiredAt = ty
			f.FiredSite = site
			runtime.GC()
		case FaultAbort:
			if st.nopre > 0 || st.lockDepth[me] > 0 {
				continue
			}
			canPanic := int(site) < len(st.cfg.SiteFlags) && st.cfg.SiteFlags[site]&FlagCanPanic != 0
			if !canPanic && ty < f.At+f.Slack {
				continue
			}
			if !canPanic {
				// no realistic abort point within the slack: give up on this fault
				f.Fired = true
				f.FiredAt = -1
				continue
			}
			f.Fired = true
			f.FiredAt = ty
			f.FiredSite = site
			theAbort.Task = me
			panic(theAbort)
		}
	}
}

// RunawaySentinel is the panic value that cuts off an operation which exceeded
// its yield budget (an endless loop in the library would otherwise hang the
// simulator; the cut-off is by yield count, hence deterministic).
type RunawaySentinel struct{}

var theRunaway = &RunawaySentinel{}

// IsRunaway reports whether a recovered panic value is the yield-budget cut-off.
func IsRunaway(v interface{}) bool {
	_, ok := v.(*RunawaySentinel)
	return ok
}

// ArmLimit sets the yield budget of the operation that is about to run
// (0 disarms).
//
//go:norace
func ArmLimit(n int64) {
	if st.free {
		return
	}
	if st.active {
		if n <= 0 {
			st.opLimit[st.cur] = 0
		} else {
			st.opLimit[st.cur] = st.tyields[st.cur] + n
		}
		return
	}
	if n <= 0 {
		st.baseLimit = 0
	} else {
		st.baseLimit = st.ycount + n
	}
}

// IsAbort reports whether a recovered panic value is an injected abort.
func IsAbort(v interface{}) bool {
	_, ok := v.(*AbortSentinel)
	return ok
}

//go:norace
func nextBudget() int64 {
	c := &st.cfg
	max := c.MaxSwitches
	if max <= 0 {
		max = 4000
	}
	if st.switches >= max {
		return Inf
	}
	if st.swIdx < len(c.SwitchAt) {
		for st.swIdx < len(c.SwitchAt) && c.SwitchAt[st.swIdx] <= st.gyields {
			st.swIdx++
		}
		if st.swIdx < len(c.SwitchAt) {
			// not consumed here: if the task finishes before the point is reached,
			// the point still pre-empts whoever runs then
			return c.SwitchAt[st.swIdx] - st.gyields
		}
	}
	if len(c.SwitchAt) != 0 || c.MeanGap <= 0 {
		return Inf
	}
	u := rndFloat()
	if u < 1e-12 {
		u = 1e-12
	}
	g := int64(-float64(c.MeanGap)*math.Log(u)) + 1
	return g
}

// pickNext chooses the next task among the unfinished ones (generate mode).
// exclude >= 0 removes that task from the choice if another one is available.
//
//go:norace
func pickNext(exclude int32) int32 {
	var cand [MaxTasks]int32
	nc := 0
	stallApplies := st.stallLeft > 0
	skipped := false
	for i := int32(0); i < st.n; i++ {
		if st.done[i] || i == exclude {
			continue
		}
		if i == st.cfg.LowPrio {
			continue
		}
		if stallApplies && st.stalled[i] && st.preempted[i] {
			skipped = true
			continue
		}
		cand[nc] = i
		nc++
	}
	if nc == 0 {
		// relax in order: stall, low-prio, exclude
		for i := int32(0); i < st.n; i++ {
			if !st.done[i] && i != exclude {
				cand[nc] = i
				nc++
			}
		}
		skipped = false
	}
	if nc == 0 {
		if exclude >= 0 && !st.done[exclude] {
			return exclude
		}
		return -1
	}
	if skipped {
		st.stallLeft--
		st.stallsk++
	}
	return cand[rnd(int64(nc))]
}

//go:norace
func lowestAlive(exclude int32) int32 {
	for i := int32(0); i < st.n; i++ {
		if !st.done[i] && i != exclude {
			return i
		}
	}
	if exclude >= 0 && !st.done[exclude] {
		return exclude
	}
	return -1
}

//go:norace
func alive() int {
	k := 0
	for i := int32(0); i < st.n; i++ {
		if !st.done[i] {
			k++
		}
	}
	return k
}

//go:norace
func record(task int32, n int64, site uint32) {
	if st.nsegs < len(st.segs) {
		st.segs[st.nsegs] = Segment{task, n, site}
		st.nsegs++
	} else {
		st.trunc = true
	}
}

// decide returns the task to run next and its budget. blocked: the current
// task cannot proceed (lock seam) and must not be chosen if another is alive.
//
//go:norace
func decide(me int32, finished, blocked bool) (int32, int64) {
	if st.cfg.ReplayMode {
		for st.rpIdx < len(st.cfg.Replay) {
			s := st.cfg.Replay[st.rpIdx]
			st.rpIdx++
			if s.Task < 0 || s.Task >= st.n || st.done[s.Task] || s.N <= 0 {
				continue // stale segment (task removed by minimisation or already finished)
			}
			if blocked && s.Task == me && alive() > 1 {
				continue
			}
			return s.Task, s.N
		}
		// exhausted: remaining tasks run to completion in id order
		if alive() > 1 {
			st.drift = true
		}
		ex := int32(-1)
		if blocked {
			ex = me
		}
		nx := lowestAlive(ex)
		if blocked {
			return nx, 1
		}
		return nx, Inf
	}
	if st.trunc {
		nx := lowestAlive(-1)
		if blocked {
			nx = lowestAlive(me)
			return nx, 1
		}
		return nx, Inf
	}
	ex := int32(-1)
	if blocked || (!finished && alive() > 1) {
		ex = me // a pre-emption always moves to another task when one exists
	}
	nx := pickNext(ex)
	b := nextBudget()
	if blocked && nx == me {
		b = 1
	}
	return nx, b
}

//go:norace
func rawWrite(fd int32) {
	var b [1]byte
	for {
		_, _, e := syscall.Syscall(syscall.SYS_WRITE, uintptr(fd), uintptr(unsafe.Pointer(&b[0])), 1)
		if e == syscall.EINTR || e == syscall.EAGAIN {
			continue
		}
		return
	}
}

//go:norace
func rawRead(fd int32) {
	var b [1]byte
	for {
		n, _, e := syscall.Syscall(syscall.SYS_READ, uintptr(fd), uintptr(unsafe.Pointer(&b[0])), 1)
		if e == syscall.EINTR || e == syscall.EAGAIN {
			continue
		}
		if n == 1 || e != 0 {
			return
		}
		// n == 0: EOF (pipe closed) - should not happen; leave
		return
	}
}

//go:norace
func switchOut(site uint32, blocked bool) {
	me := st.cur
	nx, b := decide(me, false, blocked)
	if nx == me || nx < 0 {
		// continue running; merge into the current segment
		st.budget = b
		return
	}
	record(me, st.ran, site)
	st.npre[me]++
	st.preempted[me] = st.npre[me] > int64(st.cfg.StallSkip)
	st.ran = 0
	st.switches++
	if int(site) < len(st.sitePre) {
		st.sitePre[site]++
		if int(site) < len(st.cfg.SiteFlags) && st.cfg.SiteFlags[site]&FlagHot != 0 {
			st.hotsw++
		}
	}
	st.cur = nx
	st.budget = b
	myfd := st.rfd[me]
	rawWrite(st.wfd[nx])
	// from here on another task runs: touch nothing shared
	rawRead(myfd)
}

// YieldBlocked is called by the lock seam when the running task cannot make
// progress; it forces a switch to another task if one is alive.
//
//go:norace
func YieldBlocked() {
	if !st.active || st.free {
		runtime.Gosched()
		return
	}
	st.spins++
	if st.spins > 50_000_000 {
		st.hang = true
	}
	if alive() <= 1 {
		// nobody can release the lock: genuine deadlock of the code under test
		st.hang = true
		runtime.Gosched()
		return
	}
	thawLockHolders()
	switchOut(^uint32(0), true)
}

// thawLockHolders: a task that waits for a lock cannot proceed while a starved
// ("frozen") task holds one; starving the holder any longer explores nothing, it
// only burns scheduling decisions. The holder is released from the starvation set.
//
//go:norace
func thawLockHolders() {
	if st.stallLeft <= 0 {
		return
	}
	for i := int32(0); i < st.n; i++ {
		if st.stalled[i] && !st.done[i] && st.lockDepth[i] > 0 {
			st.stalled[i] = false
		}
	}
}

// taskDone is called when the running task has finished all its work.
//
//go:norace
func taskDone() {
	me := st.cur
	st.done[me] = true
	// N = ran+1 marks "ran to completion": on replay the budget must not expire
	// at the task's last yield, or its tail statements would run later than here.
	record(me, st.ran+1, ^uint32(0))
	st.ran = 0
	nx, b := decide(me, true, false)
	if nx < 0 {
		return
	}
	st.cur = nx
	st.budget = b
	rawWrite(st.wfd[nx])
}

//go:norace
func parkSelf(i int) { rawRead(st.rfd[i]) }

//go:norace
func setFree(on bool) { st.free = on }

//go:norace
func begin(cfg *Config, n int) error {
	st.cfg = *cfg
	st.n = int32(n)
	st.rng = cfg.Seed ^ 0x5851f42d4c957f2d
	st.gyields, st.switches, st.hotsw, st.stallsk, st.rareSw = 0, 0, 0, 0, 0
	st.swIdx, st.rpIdx, st.nsegs, st.ntouch = 0, 0, 0, 0
	st.drift, st.trunc, st.hang = false, false, false
	st.nopre, st.spins, st.slack, st.ran = 0, 0, 0, 0
	st.stallLeft = cfg.StallFor
	for i := 0; i < MaxTasks; i++ {
		st.done[i] = i >= n
		st.preempted[i] = false
		st.npre[i] = 0
		st.quiet[i] = false
		st.tyields[i] = 0
		st.lockDepth[i] = 0
		st.opLimit[i] = 0
		st.stalled[i] = false
	}
	if cfg.StallTask >= 0 && int(cfg.StallTask) < n {
		st.stalled[cfg.StallTask] = true
	}
	for _, t := range cfg.StallSet {
		if t >= 0 && int(t) < n {
			st.stalled[t] = true
		}
	}
	for i := 0; i < n; i++ {
		var p [2]int
		if err := syscall.Pipe(p[:]); err != nil {
			for j := 0; j < i; j++ {
				syscall.Close(int(st.rfd[j]))
				syscall.Close(int(st.wfd[j]))
			}
			return err
		}
		st.rfd[i], st.wfd[i] = int32(p[0]), int32(p[1])
	}
	return nil
}

//go:norace
func start() {
	nx, b := decide(-1, true, false)
	st.cur = nx
	st.budget = b
	st.active = true
	rawWrite(st.wfd[nx])
}

//go:norace
func finish(out *Stats) {
	st.active = false
	for i := int32(0); i < st.n; i++ {
		syscall.Close(int(st.rfd[i]))
		syscall.Close(int(st.wfd[i]))
	}
	out.Yields = st.gyields
	out.Switches = st.switches
	out.HotSwitches = st.hotsw
	out.StallSkips = st.stallsk
	out.Truncated = st.trunc
	out.ReplayDrift = st.drift
	out.BlockedSpins = st.spins
	out.Hang = st.hang
	out.Segments = make([]Segment, st.nsegs)
	copy(out.Segments, st.segs[:st.nsegs])
	h := uint64(1469598103934665603)
	for _, s := range out.Segments {
		h = (h ^ uint64(uint32(s.Task))) * 1099511628211
		h = (h ^ uint64(s.N)) * 1099511628211
	}
	out.SchedDigest = h
	// fold coverage of this run
	for k := 0; k < st.ntouch; k++ {
		s := st.touchList[k]
		m := st.siteMask[s]
		if m&(m-1) != 0 {
			st.siteCo[s] = 1
		}
		st.siteMask[s] = 0
		st.siteRun[s] = 0
	}
	st.ntouch = 0
}

// FaultsAfter returns the fault list with Fired/FiredAt filled in (call after Run).
//
//go:norace
func FaultsAfter() []Fault {
	out := make([]Fault, len(st.cfg.Faults))
	copy(out, st.cfg.Faults)
	return out
}

// Run executes the task bodies under the scheduler and returns when all have
// finished. Bodies must recover their own panics.
func Run(cfg *Config, bodies []func()) (Stats, error) {
	var out Stats
	n := len(bodies)
	if n == 0 || n > MaxTasks {
		return out, syscall.EINVAL
	}
	if cfg.Free {
		var wg sync.WaitGroup
		wg.Add(n)
		setFree(true)
		for i := 0; i < n; i++ {
			body := bodies[i]
			go func() {
				defer wg.Done()
				body()
			}()
		}
		wg.Wait()
		setFree(false)
		return out, nil
	}
	if err := begin(cfg, n); err != nil {
		return out, err
	}
	var wg sync.WaitGroup
	wg.Add(n)
	for i := 0; i < n; i++ {
		i := i
		body := bodies[i]
		go func() {
			defer wg.Done()
			parkSelf(i)
			func() {
				defer func() {
					// a body that lets a panic escape still has to hand the CPU on
					if r := recover(); r != nil {
						taskDone()
						panic(r)
					}
				}()
				body()
			}()
			taskDone()
		}()
	}
	start()
	wg.Wait()
	finish(&out)
	return out, nil
}

// Coverage snapshot (across all runs of this process).
type Coverage struct {
	Exec []uint32
	Co   []uint8
	Pre  []uint32
	Base []uint8
}

//go:norace
func CoverageSnapshot() Coverage {
	c := Coverage{
		Exec: make([]uint32, len(st.siteExec)),
		Co:   make([]uint8, len(st.siteCo)),
		Pre:  make([]uint32, len(st.sitePre)),
		Base: make([]uint8, len(st.siteBase)),
	}
	copy(c.Exec, st.siteExec)
	copy(c.Co, st.siteCo)
	copy(c.Pre, st.sitePre)
	copy(c.Base, st.siteBase)
	return c
}

// Thru is spliced around value-returning sync/atomic calls: the operation has
// happened, the statement it belongs to has not finished - a pre-emption point
// inside the expression.
func Thru[T any](v T, site uint32) T {
	Yield(site)
	return v
}

// ---- seams for blocking primitives (none exist in the pinned tree) ----

// LockSeam replaces x.Lock(): spin on TryLock, yielding to other tasks.
func LockSeam(try func() bool, lock func()) {
	if !Active() {
		lock()
		return
	}
	for !try() {
		YieldBlocked()
	}
	lockDelta(1)
}

// UnlockSeam replaces x.Unlock() / x.RUnlock().
func UnlockSeam(unlock func()) {
	unlock()
	if Active() {
		lockDelta(-1)
	}
}

//go:norace
func lockDelta(d int32) {
	if st.free {
		return
	}
	st.lockDepth[st.cur] += d
}

//go:norace
func noPreempt(d int32) {
	if st.free {
		return
	}
	st.nopre += d
}

// OnceDo replaces once.Do(f): the body runs with pre-emption disabled so that
// no other task can block on the Once's internal mutex while we are parked.
func OnceDo(do func(func()), f func()) {
	if !Active() {
		do(f)
		return
	}
	noPreempt(1)
	defer noPreempt(-1)
	do(f)
}
