// Command instrument rewrites a scratch copy of free5gc/nas in place:
//
//   - splices `vsimrt.Yield(id); ` before every statement of every function
//     (line numbers are preserved: text is inserted, never reprinted);
//   - rewrites sync.Mutex/RWMutex Lock/Unlock and sync.Once.Do calls to the
//     scheduler's seams;
//   - classifies every yield site (hot / can-panic) with go/types;
//   - lists blocking primitives it cannot put behind a seam (go statements,
//     channel operations, select, Cond/WaitGroup waits, sleeps);
//   - emits sites_gen.go and registry_gen.go (every exported function and type
//     of every library package, with parameter names) into the harness package.
//
// It never touches /repo: it is pointed at a scratch copy.
package main

import (
	"bytes"
	"encoding/json"
	"flag"
	"fmt"
	"go/ast"
	"go/constant"
	"go/importer"
	"go/parser"
	"go/token"
	"go/types"
	"io"
	"os"
	"os/exec"
	"path/filepath"
	"sort"
	"strings"
)

type listPkg struct {
	Dir        string
	ImportPath string
	Name       string
	Export     string
	GoFiles    []string
	Imports    []string
	Standard   bool
	Module     *struct{ Path string }
}

type edit struct {
	off  int
	end  int // == off for pure insertion
	text string
}

type site struct {
	ID    int    `json:"id"`
	File  string `json:"file"`
	Line  int    `json:"line"`
	Func  string `json:"func"`
	Flags int    `json:"flags"`
	// Vars: the package-level variables of the module that the statement mentions
	// ("pkg/path.name"). Operations that reach the same variable are run together.
	Vars []string `json:"vars,omitempty"`
}

type uncontrolled struct {
	Kind string `json:"kind"`
	Pos  string `json:"pos"`
}

const (
	flagHot      = 1
	flagCanPanic = 2
)

var (
	root      = flag.String("root", "", "scratch module root (copy of the repository)")
	modPath   = flag.String("mod", "github.com/free5gc/nas", "module path")
	rtImport  = flag.String("rt", "github.com/free5gc/nas/zzverif/vsimrt", "import path of the scheduler runtime")
	outDir    = flag.String("out", "", "directory (package harness) to write sites_gen.go and registry_gen.go into")
	outJSON   = flag.String("json", "", "write site table + uncontrolled sources as JSON here")
	skipPkgs  = flag.String("skip", "internal/,zzverif/", "comma separated module-relative prefixes not instrumented")
	noRegPkgs = flag.String("noreg", "internal/,zzverif/", "prefixes left out of the registry")
)

func die(f string, a ...interface{}) {
	fmt.Fprintf(os.Stderr, "instrument: "+f+"\n", a...)
	os.Exit(2)
}

func main() {
	flag.Parse()
	if *root == "" || *outDir == "" {
		die("need -root and -out")
	}
	pkgs, exports := goList()
	fset := token.NewFileSet()
	imp := importer.ForCompiler(fset, "gc", func(path string) (io.ReadCloser, error) {
		f, ok := exports[path]
		if !ok || f == "" {
			return nil, fmt.Errorf("no export data for %s", path)
		}
		return os.Open(f)
	})

	var sites []site
	var unc []uncontrolled
	var reg registry
	filesTouched := 0

	sort.Slice(pkgs, func(i, j int) bool { return pkgs[i].ImportPath < pkgs[j].ImportPath })
	for _, p := range pkgs {
		rel := strings.TrimPrefix(strings.TrimPrefix(p.ImportPath, *modPath), "/")
		if hasPrefixAny(rel+"/", *skipPkgs) {
			continue
		}
		var files []*ast.File
		var names []string
		for _, gf := range p.GoFiles {
			fn := filepath.Join(p.Dir, gf)
			f, err := parser.ParseFile(fset, fn, nil, parser.ParseComments)
			if err != nil {
				die("parse %s: %v", fn, err)
			}
			files = append(files, f)
			names = append(names, fn)
		}
		info := &types.Info{
			Uses:       map[*ast.Ident]types.Object{},
			Defs:       map[*ast.Ident]types.Object{},
			Types:      map[ast.Expr]types.TypeAndValue{},
			Selections: map[*ast.SelectorExpr]*types.Selection{},
		}
		conf := types.Config{Importer: imp, Error: func(err error) {}}
		tpkg, err := conf.Check(p.ImportPath, fset, files, info)
		if err != nil {
			die("type-check %s: %v", p.ImportPath, err)
		}
		for i, f := range files {
			src, err := os.ReadFile(names[i])
			if err != nil {
				die("%v", err)
			}
			relFile, _ := filepath.Rel(*root, names[i])
			w := &walker{fset: fset, info: info, pkg: tpkg, file: f, relFile: relFile, src: src, sites: &sites, unc: &unc}
			w.run()
			if len(w.edits) == 0 {
				continue
			}
			// import: same line as the package clause
			w.edits = append(w.edits, edit{off: fset.Position(f.Name.End()).Offset, end: fset.Position(f.Name.End()).Offset,
				text: fmt.Sprintf("; import vsimrt %q", *rtImport)})
			out := applyEdits(src, w.edits)
			if err := os.WriteFile(names[i], out, 0o644); err != nil {
				die("%v", err)
			}
			filesTouched++
		}
		if !hasPrefixAny(rel+"/", *noRegPkgs) && p.Name != "main" {
			reg.addPackage(p, tpkg, files)
		}
	}
	writeSites(sites)
	reg.write()
	if *outJSON != "" {
		b, _ := json.MarshalIndent(map[string]interface{}{"sites": sites, "uncontrolled": unc, "files": filesTouched}, "", " ")
		if err := os.WriteFile(*outJSON, b, 0o644); err != nil {
			die("%v", err)
		}
	}
	fmt.Printf("instrument: %d sites in %d files, %d uncontrolled sources, %d funcs, %d types\n",
		len(sites), filesTouched, len(unc), len(reg.funcs), len(reg.types))
}

func hasPrefixAny(rel, list string) bool {
	for _, p := range strings.Split(list, ",") {
		if p != "" && strings.HasPrefix(rel, p) {
			return true
		}
	}
	return false
}

func goList() ([]*listPkg, map[string]string) {
	cmd := exec.Command("go", "list", "-export", "-deps", "-json=Dir,ImportPath,Name,Export,GoFiles,Imports,Standard,Module", "./...")
	cmd.Dir = *root
	cmd.Stderr = os.Stderr
	out, err := cmd.Output()
	if err != nil {
		die("go list: %v", err)
	}
	dec := json.NewDecoder(bytes.NewReader(out))
	exports := map[string]string{}
	var mine []*listPkg
	for dec.More() {
		p := &listPkg{}
		if err := dec.Decode(p); err != nil {
			die("go list json: %v", err)
		}
		exports[p.ImportPath] = p.Export
		if p.Module != nil && p.Module.Path == *modPath {
			mine = append(mine, p)
		}
	}
	return mine, exports
}

func applyEdits(src []byte, edits []edit) []byte {
	sort.SliceStable(edits, func(i, j int) bool { return edits[i].off < edits[j].off })
	var out bytes.Buffer
	pos := 0
	for _, e := range edits {
		if e.off < pos {
			// overlapping replacement (nested seam): skip the inner one
			continue
		}
		out.Write(src[pos:e.off])
		out.WriteString(e.text)
		pos = e.end
	}
	out.Write(src[pos:])
	return out.Bytes()
}

type walker struct {
	fset    *token.FileSet
	info    *types.Info
	pkg     *types.Package
	file    *ast.File
	relFile string
	src     []byte
	sites   *[]site
	unc     *[]uncontrolled
	edits   []edit
	fn      string
	noWrap  *ast.CallExpr // the call of a defer / go statement: never wrapped in an expression
	vars    []string      // set by classify: package-level variables mentioned by the statement
}

func (w *walker) off(p token.Pos) int { return w.fset.Position(p).Offset }

func (w *walker) run() {
	for _, d := range w.file.Decls {
		fd, ok := d.(*ast.FuncDecl)
		if !ok || fd.Body == nil {
			continue // package-level initialisers are not instrumented
		}
		if fd.Recv == nil && fd.Name.Name == "init" {
			continue
		}
		w.fn = fd.Name.Name
		if fd.Recv != nil && len(fd.Recv.List) == 1 {
			w.fn = typeString(fd.Recv.List[0].Type) + "." + fd.Name.Name
		}
		w.block(fd.Body, false)
	}
}

func typeString(e ast.Expr) string {
	switch t := e.(type) {
	case *ast.StarExpr:
		return typeString(t.X)
	case *ast.Ident:
		return t.Name
	case *ast.IndexExpr:
		return typeString(t.X)
	case *ast.IndexListExpr:
		return typeString(t.X)
	}
	return "?"
}

func (w *walker) addSite(pos token.Pos, flags int) {
	id := len(*w.sites)
	p := w.fset.Position(pos)
	*w.sites = append(*w.sites, site{ID: id, File: filepath.ToSlash(w.relFile), Line: p.Line, Func: w.fn, Flags: flags, Vars: w.vars})
	w.vars = nil
	o := w.off(pos)
	w.edits = append(w.edits, edit{off: o, end: o, text: fmt.Sprintf("vsimrt.Yield(%d); ", id)})
}

// block instruments a statement list holder. clauseHolder: the BlockStmt is the
// body of a switch/select, whose List holds clauses, not statements.
func (w *walker) block(b *ast.BlockStmt, clauseHolder bool) {
	if b == nil {
		return
	}
	if clauseHolder {
		for _, s := range b.List {
			switch c := s.(type) {
			case *ast.CaseClause:
				for _, e := range c.List {
					w.expr(e)
				}
				w.stmts(c.Body)
			case *ast.CommClause:
				if c.Comm != nil {
					w.uncontrolled("select-comm", c.Pos())
				}
				w.stmts(c.Body)
			}
		}
		return
	}
	if len(b.List) == 0 {
		id := len(*w.sites)
		p := w.fset.Position(b.Lbrace)
		*w.sites = append(*w.sites, site{ID: id, File: filepath.ToSlash(w.relFile), Line: p.Line, Func: w.fn})
		o := w.off(b.Lbrace) + 1
		w.edits = append(w.edits, edit{off: o, end: o, text: fmt.Sprintf(" vsimrt.Yield(%d) ", id)})
		return
	}
	w.stmts(b.List)
}

func (w *walker) stmts(list []ast.Stmt) {
	for _, s := range list {
		w.stmt(s, true)
	}
}

func (w *walker) uncontrolled(kind string, pos token.Pos) {
	p := w.fset.Position(pos)
	*w.unc = append(*w.unc, uncontrolled{Kind: kind, Pos: fmt.Sprintf("%s:%d", filepath.ToSlash(w.relFile), p.Line)})
}

// stmt instruments one statement (a yield before it if top is set) and recurses.
func (w *walker) stmt(s ast.Stmt, top bool) {
	if s == nil {
		return
	}
	if top {
		w.addSite(s.Pos(), w.classify(s))
	}
	switch t := s.(type) {
	case *ast.BlockStmt:
		w.block(t, false)
	case *ast.IfStmt:
		w.stmt(t.Init, false)
		w.expr(t.Cond)
		w.block(t.Body, false)
		switch e := t.Else.(type) {
		case *ast.BlockStmt:
			w.block(e, false)
		case *ast.IfStmt:
			w.stmt(e, false)
		}
	case *ast.ForStmt:
		w.stmt(t.Init, false)
		w.expr(t.Cond)
		w.stmt(t.Post, false)
		w.block(t.Body, false)
	case *ast.RangeStmt:
		w.expr(t.X)
		if tv, ok := w.info.Types[t.X]; ok {
			if _, isChan := tv.Type.Underlying().(*types.Chan); isChan {
				w.uncontrolled("range-chan", t.Pos())
			}
		}
		w.block(t.Body, false)
	case *ast.SwitchStmt:
		w.stmt(t.Init, false)
		w.expr(t.Tag)
		w.block(t.Body, true)
	case *ast.TypeSwitchStmt:
		w.stmt(t.Init, false)
		w.stmt(t.Assign, false)
		w.block(t.Body, true)
	case *ast.SelectStmt:
		w.uncontrolled("select", t.Pos())
		w.block(t.Body, true)
	case *ast.LabeledStmt:
		w.stmt(t.Stmt, false)
	case *ast.GoStmt:
		w.uncontrolled("go", t.Pos())
		w.noWrap = t.Call
		w.expr(t.Call)
	case *ast.SendStmt:
		w.uncontrolled("chan-send", t.Pos())
		w.expr(t.Chan)
		w.expr(t.Value)
	case *ast.DeferStmt:
		w.noWrap = t.Call // `defer x.Add(-1)` must stay a deferred call
		w.expr(t.Call)
	case *ast.ExprStmt:
		w.expr(t.X)
	case *ast.AssignStmt:
		for _, e := range t.Lhs {
			w.expr(e)
		}
		for _, e := range t.Rhs {
			w.expr(e)
		}
	case *ast.ReturnStmt:
		for _, e := range t.Results {
			w.expr(e)
		}
	case *ast.IncDecStmt:
		w.expr(t.X)
	case *ast.DeclStmt:
		if gd, ok := t.Decl.(*ast.GenDecl); ok {
			for _, sp := range gd.Specs {
				if vs, ok := sp.(*ast.ValueSpec); ok {
					for _, e := range vs.Values {
						w.expr(e)
					}
				}
			}
		}
	}
}

// expr walks an expression: instruments function literals, applies seams,
// records uncontrolled primitives.
func (w *walker) expr(e ast.Expr) {
	if e == nil {
		return
	}
	ast.Inspect(e, func(n ast.Node) bool {
		switch t := n.(type) {
		case *ast.FuncLit:
			saved := w.fn
			w.fn = saved + ".func"
			w.block(t.Body, false)
			w.fn = saved
			return false
		case *ast.UnaryExpr:
			if t.Op == token.ARROW {
				w.uncontrolled("chan-recv", t.Pos())
			}
		case *ast.CallExpr:
			w.call(t)
		}
		return true
	})
}

func (w *walker) text(n ast.Node) string { return string(w.src[w.off(n.Pos()):w.off(n.End())]) }

func (w *walker) call(c *ast.CallExpr) {
	sel, ok := c.Fun.(*ast.SelectorExpr)
	if !ok {
		return
	}
	obj, _ := w.info.Uses[sel.Sel].(*types.Func)
	if obj == nil || obj.Pkg() == nil {
		return
	}
	pkg := obj.Pkg().Path()
	sig, _ := obj.Type().(*types.Signature)
	recvName := ""
	if sig != nil && sig.Recv() != nil {
		rt := sig.Recv().Type()
		if p, ok := rt.(*types.Pointer); ok {
			rt = p.Elem()
		}
		if n, ok := rt.(*types.Named); ok {
			recvName = n.Obj().Name()
		}
	}
	x := w.text(sel.X)
	repl := ""
	switch {
	case pkg == "sync" && (recvName == "Mutex" || recvName == "RWMutex") && obj.Name() == "Lock":
		repl = fmt.Sprintf("vsimrt.LockSeam((%s).TryLock, (%s).Lock)", x, x)
	case pkg == "sync" && recvName == "RWMutex" && obj.Name() == "RLock":
		repl = fmt.Sprintf("vsimrt.LockSeam((%s).TryRLock, (%s).RLock)", x, x)
	case pkg == "sync" && (recvName == "Mutex" || recvName == "RWMutex") && (obj.Name() == "Unlock" || obj.Name() == "RUnlock"):
		repl = fmt.Sprintf("vsimrt.UnlockSeam((%s).%s)", x, obj.Name())
	case pkg == "sync" && recvName == "Once" && obj.Name() == "Do" && len(c.Args) == 1:
		repl = fmt.Sprintf("vsimrt.OnceDo((%s).Do, %s)", x, w.text(c.Args[0]))
		// the function literal argument (if any) is re-emitted as text, so it is
		// not instrumented; that is fine: it runs with pre-emption disabled.
	case pkg == "sync" && recvName == "Pool" && (obj.Name() == "Get" || obj.Name() == "Put"):
		// not blocking, but under -race the runtime drops a random quarter of the Puts:
		// the library's control flow is then not a function of the seed
		w.uncontrolled("sync.Pool."+obj.Name(), c.Pos())
	case pkg == "sync" && (recvName == "Cond" || recvName == "WaitGroup") && obj.Name() == "Wait":
		w.uncontrolled("sync."+recvName+".Wait", c.Pos())
	case pkg == "sync" && recvName == "" && strings.HasPrefix(obj.Name(), "Once"):
		w.uncontrolled("sync."+obj.Name(), c.Pos())
	case pkg == "time" && recvName == "" && (obj.Name() == "Sleep" || obj.Name() == "After" || obj.Name() == "NewTimer" ||
		obj.Name() == "Tick" || obj.Name() == "NewTicker" || obj.Name() == "AfterFunc" || obj.Name() == "Now" || obj.Name() == "Since"):
		w.uncontrolled("time."+obj.Name(), c.Pos())
	case (pkg == "math/rand" || pkg == "math/rand/v2" || pkg == "crypto/rand") && recvName == "":
		w.uncontrolled(pkg+"."+obj.Name(), c.Pos())
	case pkg == "sync/atomic" && sig != nil && sig.Results().Len() == 1 && c != w.noWrap:
		// A pre-emption point right AFTER every value-returning atomic operation, inside
		// the expression it is part of: `x.Store(x.Load() &^ bit)` is two atomic steps
		// with a window between them, and statement-level yields cannot enter it.
		id := len(*w.sites)
		ps := w.fset.Position(c.Pos())
		*w.sites = append(*w.sites, site{ID: id, File: filepath.ToSlash(w.relFile), Line: ps.Line, Func: w.fn, Flags: flagHot})
		w.edits = append(w.edits, edit{off: w.off(c.Pos()), end: w.off(c.Pos()), text: "vsimrt.Thru("})
		w.edits = append(w.edits, edit{off: w.off(c.End()), end: w.off(c.End()), text: fmt.Sprintf(", %d)", id)})
	}
	if repl != "" {
		w.edits = append(w.edits, edit{off: w.off(c.Pos()), end: w.off(c.End()), text: repl})
	}
}

// classify computes the flags of a statement from its shallow part (nested
// blocks and function literals have their own sites).
func (w *walker) classify(s ast.Stmt) int {
	flags := 0
	w.vars = nil
	visit := func(n ast.Node) bool {
		switch t := n.(type) {
		case *ast.BlockStmt, *ast.FuncLit:
			return false
		case *ast.Ident:
			if v, ok := w.info.Uses[t].(*types.Var); ok && v.Pkg() != nil && !v.IsField() &&
				v.Parent() == v.Pkg().Scope() && strings.HasPrefix(v.Pkg().Path(), *modPath) {
				flags |= flagHot
				name := strings.TrimPrefix(strings.TrimPrefix(v.Pkg().Path(), *modPath), "/") + "." + v.Name()
				dup := false
				for _, x := range w.vars {
					dup = dup || x == name
				}
				if !dup {
					w.vars = append(w.vars, name)
				}
			}
		case *ast.IndexExpr:
			if tv, ok := w.info.Types[t.X]; ok {
				if _, isMap := tv.Type.Underlying().(*types.Map); !isMap {
					flags |= flagCanPanic
				}
			}
		case *ast.SliceExpr:
			flags |= flagCanPanic
		case *ast.StarExpr:
			if tv, ok := w.info.Types[t]; ok && tv.IsValue() {
				flags |= flagCanPanic
			}
		case *ast.TypeAssertExpr:
			if t.Type != nil {
				flags |= flagCanPanic
			}
		case *ast.BinaryExpr:
			if t.Op == token.QUO || t.Op == token.REM {
				if tv, ok := w.info.Types[t.Y]; ok && tv.Value == nil {
					if b, ok := tv.Type.Underlying().(*types.Basic); ok && b.Info()&types.IsInteger != 0 {
						flags |= flagCanPanic
					}
				}
			}
		case *ast.SelectorExpr:
			if sel, ok := w.info.Selections[t]; ok && sel.Kind() == types.FieldVal {
				if tv, ok := w.info.Types[t.X]; ok {
					if _, isPtr := tv.Type.Underlying().(*types.Pointer); isPtr {
						flags |= flagCanPanic
					}
				}
				if sel.Indirect() {
					flags |= flagCanPanic
				}
			}
			if f, ok := w.info.Uses[t.Sel].(*types.Func); ok && f.Pkg() != nil {
				if f.Pkg().Path() == "sync/atomic" {
					flags |= flagHot
				}
				if sig, ok := f.Type().(*types.Signature); ok && sig.Recv() != nil && f.Pkg().Path() == "sync" {
					flags |= flagHot
				}
			}
		case *ast.CallExpr:
			if id, ok := t.Fun.(*ast.Ident); ok {
				if b, ok := w.info.Uses[id].(*types.Builtin); ok && (b.Name() == "panic" || b.Name() == "make") {
					flags |= flagCanPanic
				}
			}
		}
		return true
	}
	shallow := func(nodes ...ast.Node) {
		for _, n := range nodes {
			if n != nil && !isNilNode(n) {
				ast.Inspect(n, visit)
			}
		}
	}
	switch t := s.(type) {
	case *ast.IfStmt:
		shallow(t.Init, t.Cond)
	case *ast.ForStmt:
		shallow(t.Init, t.Cond, t.Post)
	case *ast.RangeStmt:
		shallow(t.X)
	case *ast.SwitchStmt:
		shallow(t.Init, t.Tag)
	case *ast.TypeSwitchStmt:
		shallow(t.Init, t.Assign)
	case *ast.SelectStmt, *ast.BlockStmt:
	case *ast.LabeledStmt:
		return w.classify(t.Stmt)
	default:
		shallow(s)
	}
	return flags
}

func isNilNode(n ast.Node) bool {
	switch t := n.(type) {
	case ast.Stmt:
		return t == nil
	case ast.Expr:
		return t == nil
	}
	return false
}

func writeSites(sites []site) {
	var b bytes.Buffer
	b.WriteString("// Code generated by /verif/sim/instrument. DO NOT EDIT.\n\npackage harness\n\n")
	fileIdx := map[string]int{}
	var files []string
	for _, s := range sites {
		if _, ok := fileIdx[s.File]; !ok {
			fileIdx[s.File] = len(files)
			files = append(files, s.File)
		}
	}
	fmt.Fprintf(&b, "var SiteFiles = []string{\n")
	for _, f := range files {
		fmt.Fprintf(&b, "\t%q,\n", f)
	}
	b.WriteString("}\n\n// SiteTab: file index, line, flags per site id.\nvar SiteTab = [][3]int32{\n")
	for _, s := range sites {
		fmt.Fprintf(&b, "\t{%d, %d, %d},\n", fileIdx[s.File], s.Line, s.Flags)
	}
	b.WriteString("}\n\n// HotVarNames: package-level variables of the module mentioned by some statement.\nvar HotVarNames = []string{\n")
	varIdx := map[string]int{}
	var names []string
	for _, s := range sites {
		for _, v := range s.Vars {
			if _, ok := varIdx[v]; !ok {
				varIdx[v] = len(names)
				names = append(names, v)
			}
		}
	}
	for _, n := range names {
		fmt.Fprintf(&b, "\t%q,\n", n)
	}
	b.WriteString("}\n\n// SiteVars: site id -> indices into HotVarNames.\nvar SiteVars = map[int32][]int32{\n")
	for _, s := range sites {
		if len(s.Vars) == 0 {
			continue
		}
		fmt.Fprintf(&b, "\t%d: {", s.ID)
		for i, v := range s.Vars {
			if i > 0 {
				b.WriteString(", ")
			}
			fmt.Fprintf(&b, "%d", varIdx[v])
		}
		b.WriteString("},\n")
	}
	b.WriteString("}\n")
	if err := os.WriteFile(filepath.Join(*outDir, "sites_gen.go"), b.Bytes(), 0o644); err != nil {
		die("%v", err)
	}
}

// ---- registry ----

type regFunc struct {
	pkgAlias, pkgRel, name string
	params                 []string
}

type regType struct {
	pkgAlias, pkgRel, name string
}

type registry struct {
	consts   map[uint64]bool
	consts16 map[uint64]bool // constants whose declared type is a 16-bit integer
	imports  []string        // alias "path"
	funcs    []regFunc
	types    []regType
	methods  map[string][]string // pkgRel.Type.Method -> param names
}

func (r *registry) addPackage(p *listPkg, tpkg *types.Package, files []*ast.File) {
	rel := strings.TrimPrefix(strings.TrimPrefix(p.ImportPath, *modPath), "/")
	if rel == "" {
		rel = p.Name
	}
	alias := fmt.Sprintf("p%d", len(r.imports))
	used := false
	if r.methods == nil {
		r.methods = map[string][]string{}
	}
	if r.consts == nil {
		r.consts = map[uint64]bool{}
	}
	// exported integer constants (message types, IEIs, cause values, algorithm ids ...):
	// a value pool for integer arguments, so that enum-specific branches are reached
	scope := tpkg.Scope()
	for _, name := range scope.Names() {
		c, ok := scope.Lookup(name).(*types.Const)
		if !ok || !c.Exported() {
			continue
		}
		b, ok := c.Type().Underlying().(*types.Basic)
		if !ok || b.Info()&types.IsInteger == 0 {
			continue
		}
		if v, exact := constant.Uint64Val(constant.ToInt(c.Val())); exact && v <= 0xffffffff {
			r.consts[v] = true
			if b.Kind() == types.Uint16 || b.Kind() == types.Int16 {
				if r.consts16 == nil {
					r.consts16 = map[uint64]bool{}
				}
				r.consts16[v] = true
			}
		}
	}
	for _, f := range files {
		for _, d := range f.Decls {
			switch t := d.(type) {
			case *ast.FuncDecl:
				if !t.Name.IsExported() {
					continue
				}
				if t.Type.TypeParams != nil && len(t.Type.TypeParams.List) > 0 {
					continue
				}
				names := paramNames(t.Type)
				if t.Recv == nil {
					r.funcs = append(r.funcs, regFunc{alias, rel, t.Name.Name, names})
					used = true
				} else if len(t.Recv.List) == 1 {
					r.methods[rel+"."+typeString(t.Recv.List[0].Type)+"."+t.Name.Name] = names
				}
			case *ast.GenDecl:
				if t.Tok != token.TYPE {
					continue
				}
				for _, sp := range t.Specs {
					ts := sp.(*ast.TypeSpec)
					if !ts.Name.IsExported() || (ts.TypeParams != nil && len(ts.TypeParams.List) > 0) {
						continue
					}
					if _, isIface := ts.Type.(*ast.InterfaceType); isIface {
						continue
					}
					r.types = append(r.types, regType{alias, rel, ts.Name.Name})
					used = true
				}
			}
		}
	}
	if used {
		r.imports = append(r.imports, fmt.Sprintf("%s %q", alias, p.ImportPath))
	} else {
		r.imports = append(r.imports, "")
	}
}

func paramNames(ft *ast.FuncType) []string {
	var out []string
	if ft.Params == nil {
		return out
	}
	for _, f := range ft.Params.List {
		if len(f.Names) == 0 {
			out = append(out, "_")
			continue
		}
		for _, n := range f.Names {
			out = append(out, n.Name)
		}
	}
	return out
}

func (r *registry) write() {
	var b bytes.Buffer
	b.WriteString("// Code generated by /verif/sim/instrument. DO NOT EDIT.\n\npackage harness\n\nimport (\n\t\"reflect\"\n\n")
	for _, i := range r.imports {
		if i != "" {
			fmt.Fprintf(&b, "\t%s\n", i)
		}
	}
	b.WriteString(")\n\n")
	sort.Slice(r.funcs, func(i, j int) bool {
		if r.funcs[i].pkgRel != r.funcs[j].pkgRel {
			return r.funcs[i].pkgRel < r.funcs[j].pkgRel
		}
		return r.funcs[i].name < r.funcs[j].name
	})
	sort.Slice(r.types, func(i, j int) bool {
		if r.types[i].pkgRel != r.types[j].pkgRel {
			return r.types[i].pkgRel < r.types[j].pkgRel
		}
		return r.types[i].name < r.types[j].name
	})
	b.WriteString("var RegFuncs = []RegFunc{\n")
	for _, f := range r.funcs {
		fmt.Fprintf(&b, "\t{%q, %q, reflect.ValueOf(%s.%s), %#v},\n", f.pkgRel, f.name, f.pkgAlias, f.name, f.params)
	}
	b.WriteString("}\n\nvar RegTypes = []RegType{\n")
	for _, t := range r.types {
		fmt.Fprintf(&b, "\t{%q, %q, reflect.TypeOf((*%s.%s)(nil)).Elem()},\n", t.pkgRel, t.name, t.pkgAlias, t.name)
	}
	b.WriteString("}\n\n// RegConsts: distinct values of the exported integer constants of the library.\nvar RegConsts = []uint64{")
	cs := make([]uint64, 0, len(r.consts))
	for v := range r.consts {
		cs = append(cs, v)
	}
	sort.Slice(cs, func(i, j int) bool { return cs[i] < cs[j] })
	for i, v := range cs {
		if i%16 == 0 {
			b.WriteString("\n\t")
		}
		fmt.Fprintf(&b, "%d, ", v)
	}
	b.WriteString("\n}\n\n// RegConsts16: values of the exported constants declared with a 16-bit integer type.\nvar RegConsts16 = []uint64{")
	cs16 := make([]uint64, 0, len(r.consts16))
	for v := range r.consts16 {
		cs16 = append(cs16, v)
	}
	sort.Slice(cs16, func(i, j int) bool { return cs16[i] < cs16[j] })
	for i, v := range cs16 {
		if i%16 == 0 {
			b.WriteString("\n\t")
		}
		fmt.Fprintf(&b, "%d, ", v)
	}
	b.WriteString("\n}\n\nvar RegMethodParams = map[string][]string{\n")
	keys := make([]string, 0, len(r.methods))
	for k := range r.methods {
		keys = append(keys, k)
	}
	sort.Strings(keys)
	for _, k := range keys {
		fmt.Fprintf(&b, "\t%q: %#v,\n", k, r.methods[k])
	}
	b.WriteString("}\n")
	if err := os.WriteFile(filepath.Join(*outDir, "registry_gen.go"), b.Bytes(), 0o644); err != nil {
		die("%v", err)
	}
}
