package main

import (
	"encoding/json"
	"fmt"
	"os"
	"path/filepath"
	"sort"
	"strings"
)

type siteJSON struct {
	Sites []struct {
		ID    int    `json:"id"`
		File  string `json:"file"`
		Line  int    `json:"line"`
		Func  string `json:"func"`
		Flags int    `json:"flags"`
	} `json:"sites"`
}

func writeEvidence(tier string, seed uint64, digest string, info map[string]interface{}, ii instrInfo, recs []Record, cov *covRec,
	det detResult, buildS, simWall, wall float64, nviol, workers, processes, coldChecked int) {
	var sj siteJSON
	if b, err := os.ReadFile(filepath.Join(scratch, "sites.json")); err == nil {
		json.Unmarshal(b, &sj)
	}
	distinct := map[uint64]struct{}{}
	var yields, switches, hotsw int64
	faults := map[string]int{}
	byMode := map[string]int{}
	byKind := map[string]int{}
	byShape := map[string]int{}
	discarded := 0
	famMode := map[string]int{}
	byK := map[string]int{}
	byTasks := map[string]int{}
	noisy, expP, slow, ydiff, missing, trunc := 0, 0, 0, 0, 0, 0
	masked := 0
	noisyNames, slowNames, noisyExample := map[string]int{}, map[string]int{}, map[string]string{}
	preempted := 0
	maxTasks := 0
	coldFirst := 0
	for _, r := range recs {
		yields += r.Yields
		switches += r.Switches
		hotsw += r.HotSwitches
		for k, v := range r.Faults {
			if k == "cold_first" {
				coldFirst += v
				continue
			}
			faults[k] += v
		}
		byMode[r.Mode]++
		byKind[r.Kind]++
		if r.Shape != "" {
			byShape[r.Shape]++
		}
		discarded += r.Discarded
		byK[fmt.Sprint(r.K)]++
		switch {
		case r.NTasks <= 4:
			byTasks["2-4"]++
		case r.NTasks <= 16:
			byTasks["5-16"]++
		default:
			byTasks["17-64"]++
		}
		if r.NTasks > maxTasks {
			maxTasks = r.NTasks
		}
		for _, f := range r.Fams {
			famMode[r.Mode+"/"+f]++
		}
		for _, n := range r.NoisyOps {
			if i := strings.Index(n, "#"); i > 0 {
				n = n[:i]
			}
			noisyNames[n]++
			if noisyExample[n] == "" {
				noisyExample[n] = r.NoisyDiff
			}
		}
		for _, n := range r.SlowOps {
			slowNames[n]++
		}
		masked += r.Masked
		noisy += r.Noisy
		expP += r.ExpPanics
		slow += r.TooSlow
		ydiff += r.YieldDiffs
		missing += r.Missing
		if r.Truncated {
			trunc++
		}
		if r.Switches > 0 && r.NTasks >= 2 {
			preempted++
			distinct[r.SchedDigest] = struct{}{}
		}
	}
	// site coverage
	nsites := len(cov.Exec)
	exec, co, pre, base, hot, hotPre, hotExec := 0, 0, 0, 0, 0, 0, 0
	zeroByFile := map[string]int{}
	for i := 0; i < nsites; i++ {
		isHot := i < len(sj.Sites) && sj.Sites[i].Flags&1 != 0
		if isHot {
			hot++
		}
		if cov.Exec[i] > 0 {
			exec++
			if isHot {
				hotExec++
			}
		} else if i < len(sj.Sites) {
			zeroByFile[sj.Sites[i].File]++
		}
		if cov.Co[i] != 0 {
			co++
		}
		if cov.Pre[i] > 0 {
			pre++
			if isHot {
				hotPre++
			}
		}
		if cov.Base[i] != 0 {
			base++
		}
	}
	if dump := os.Getenv("VERIF_DUMP_COV"); dump != "" {
		var lines []string
		for i := 0; i < nsites && i < len(sj.Sites); i++ {
			if cov.Exec[i] == 0 {
				lines = append(lines, fmt.Sprintf("%s:%d\t%s\tflags=%d", sj.Sites[i].File, sj.Sites[i].Line, sj.Sites[i].Func, sj.Sites[i].Flags))
			}
		}
		os.WriteFile(dump, []byte(strings.Join(lines, "\n")+"\n"), 0o644)
	}
	type fz struct {
		File string `json:"file"`
		N    int    `json:"sites_never_executed"`
	}
	var zeros []fz
	for f, n := range zeroByFile {
		zeros = append(zeros, fz{f, n})
	}
	sort.Slice(zeros, func(i, j int) bool {
		if zeros[i].N != zeros[j].N {
			return zeros[i].N > zeros[j].N
		}
		return zeros[i].File < zeros[j].File
	})
	if len(zeros) > 25 {
		zeros = zeros[:25]
	}
	// families never exercised
	var zeroFams []string
	if bf, ok := info["by_family"].(map[string]interface{}); ok {
		for f := range bf {
			if famMode["private/"+f] == 0 {
				zeroFams = append(zeroFams, "private/"+f)
			}
		}
	}
	for _, f := range []string{"shared/shget", "shared/shenc", "shared/shconv", "recycle/rcdecode", "recycle/rcuse", "recycle/rcover"} {
		if famMode[f] == 0 {
			zeroFams = append(zeroFams, f)
		}
	}
	sort.Strings(zeroFams)
	// samples
	var samples []interface{}
	want := map[string]bool{"private": true, "shared": true, "recycle": true}
	for _, r := range recs {
		if !want[r.Mode] || r.Switches == 0 {
			continue
		}
		want[r.Mode] = false
		samples = append(samples, map[string]interface{}{
			"run_index": r.Index, "run_seed": r.RunSeed, "kind": r.Kind, "mode": r.Mode, "tasks": r.NTasks, "ops": r.NOps, "families": r.Fams,
			"k": r.K, "yields": r.Yields, "context_switches": r.Switches, "faults_fired": r.Faults, "first_op": r.Sample,
			"sched_digest": fmt.Sprintf("%x", r.SchedDigest), "result_digest": fmt.Sprintf("%x", r.ResultDigest),
		})
	}
	if len(samples) == 0 && len(recs) > 0 {
		r := recs[0]
		samples = append(samples, map[string]interface{}{"run_index": r.Index, "mode": r.Mode, "tasks": r.NTasks, "ops": r.NOps, "first_op": r.Sample})
	}
	var unc []string
	for _, u := range ii.Uncontrolled {
		unc = append(unc, u.Kind+"@"+u.Pos)
	}
	detNote := "passed"
	if det.procDependent > 0 {
		detNote = fmt.Sprintf("schedules identical; %d run(s) whose outcome differs between processes under one schedule (depends on the process, not on the interleaving: noted, not a violation)", det.procDependent)
	}
	ev := map[string]interface{}{
		"property_id": "C19", "tier": tier, "seed": seed, "level": "exploration",
		"coverage": map[string]interface{}{
			"evaluations":         len(recs),
			"distinct_nontrivial": len(distinct),
			"rule": "one evaluation = one simulated run: a seeded plan (2-" + fmt.Sprint(maxTasks) + " tasks x operation lists from the tree-following catalogue, sharing mode, fault list) executed under the " +
				"seeded scheduler on the instrumented -race build, compared with three sequential baselines; focused runs walk the whole catalogue in registry order, swarm runs draw 1-3 families; " +
				"non-trivial = at least 2 tasks and at least one pre-emption in the middle of a library operation; distinct = distinct digests of the executed schedule (sequence of (task, yields) segments)",
			"samples":                         samples,
			"runs_with_mid_operation_preempt": preempted,
			"runs_simulated_before_any_sequential_baseline": coldFirst,
			"worker_processes_each_starting_cold":           processes,
			"free_running_mode":                             freeRun,
			"cold_order_oracle_runs":                        coldChecked,
			"runs_by_mode":                                  byMode,
			"runs_by_kind":                                  byKind,
			"runs_by_shape":                                 byShape,
			"discarded_repetitions_of_long_lived_callers":   discarded,
			"runs_by_preemption_target_k":                   byK,
			"runs_by_task_count":                            byTasks,
			"max_tasks_in_a_run":                            maxTasks,
			"family_x_mode_runs":                            famMode,
			"families_never_exercised":                      zeroFams,
			"yields":                                        yields,
			"context_switches":                              switches,
			"context_switches_at_hot_sites":                 hotsw,
			"fault_kinds_injected":                          faults,
			"fault_kinds_not_available":                     []string{"message loss/duplication/reordering", "partition", "crash-restart with durable state", "clock skew", "disk faults", "failing allocations/syscalls"},
			"fault_kinds_not_available_why":                 "the library has no transport, storage, clock or allocator seam: decoders take complete byte slices, encoders write to in-memory buffers",
			"sites_total":                                   nsites,
			"sites_executed_in_baseline":                    base,
			"sites_executed_in_simulation":                  exec,
			"sites_covisited_by_2_tasks":                    co,
			"sites_preempted_at":                            pre,
			"hot_sites_total":                               hot,
			"hot_sites_executed":                            hotExec,
			"hot_sites_preempted_at":                        hotPre,
			"files_with_most_unexecuted_sites":              zeros,
			"expected_panics_in_baseline":                   expP,
			"noisy_ops_excluded":                            noisy,
			"ops_compared_with_addresses_masked":            masked,
			"noisy_ops_by_name":                             noisyNames,
			"noisy_ops_example_diff":                        noisyExample,
			"too_slow_ops_by_name":                          slowNames,
			"too_slow_ops_dropped":                          slow,
			"ops_missing_on_this_tree":                      missing,
			"ops_with_yield_count_diff":                     ydiff,
			"runs_with_truncated_trace":                     trunc,
			"determinism_self_test": map[string]interface{}{
				"seeds": det.seeds, "fresh_process_executions": det.executions, "gomaxprocs": []int{1, 4, 16}, "result": detNote,
				"compared": "schedule digest, yield count, context switches, result digest of the main run vs. each fresh process",
			},
			"uncontrolled_sources_in_library": unc,
			"catalogue":                       info,
			"tree_digest":                     digest,
			"simulated_runs_per_hour":         float64(len(recs)) / simWall * 3600,
			"seeds_per_hour_note":             "one VERIF_SEED fans out into all runs of a tier; run i uses splitmix(VERIF_SEED, i)",
			"simulated_time":                  "none (the library has no timers or deadlines; nothing reads a clock)",
			"workers":                         workers,
			"build_s":                         buildS,
			"real_vs_stub": map[string]string{
				"library (all packages of /repo's working tree)": "real code, textually unchanged except for spliced vsimrt.Yield calls",
				"goroutines / interleaving":                      "real goroutines, strictly serialised by the seeded scheduler (raw-pipe hand-off invisible to the race detector)",
				"race oracle":                                    "Go race detector (TSan) on the instrumented build",
				"log sink (logrus / log)":                        "stub: io.Discard",
				"receive-buffer hand-over (recycle mode)":        "simulated mailbox: one atomic flag (release/acquire), as a transport read loop would provide",
			},
		},
		"assumptions": []string{
			"sampling, not proof: only the accesses that a run executes can race or diverge; coverage is reported above",
			"pre-emption is at statement granularity of /repo code; standard-library and third-party internals are atomic steps",
			"std-lib pools used inside library calls (fmt, encoding/binary) add occasional happens-before edges, exactly as in production",
			"TSan keeps four shadow slots per 8 bytes; a conflicting access can be evicted before its partner arrives",
			"one shared security.Count or IDGenerator used from several goroutines is outside C19 (not 'distinct values') and is not exercised",
		},
		"wall_s":     wall,
		"violations": nviol,
	}
	dir := filepath.Join(outDir, "evidence")
	os.MkdirAll(dir, 0o755)
	b, _ := json.MarshalIndent(ev, "", " ")
	tmp := filepath.Join(dir, "C19.json.tmp")
	if err := os.WriteFile(tmp, append(b, '\n'), 0o644); err != nil {
		trouble("evidence: %v", err)
	}
	if err := os.Rename(tmp, filepath.Join(dir, "C19.json")); err != nil {
		trouble("evidence: %v", err)
	}
}
