// Command verifctl drives the C19 simulation check: it copies /repo's working
// tree to a scratch directory, instruments it, builds the race-enabled worker,
// fans simulated runs out over worker processes, runs the determinism
// self-test, minimises and replays violations, applies the known-findings file
// and writes the evidence.
//
// Exit codes: 0 held on everything explored; 1 with a line
// "VIOLATION property=C19 replay=<path>"; 2 build / watchdog / self-test
// trouble (never accompanied by a VIOLATION line).
package main

import (
	"bufio"
	"bytes"
	"crypto/sha256"
	"encoding/hex"
	"encoding/json"
	"flag"
	"fmt"
	"io"
	"io/fs"
	"os"
	"os/exec"
	"os/signal"
	"path/filepath"
	"runtime"
	"sort"
	"strconv"
	"strings"
	"sync"
	"sync/atomic"
	"syscall"
	"time"
)

var (
	repoDir  = "/repo"
	verifDir = "/verif"
	outDir   = "" // where evidence/ and replays/ go (default: verifDir; VERIF_OUT overrides - used by the mutant self-test)
	scratch  string
)

func trouble(f string, a ...interface{}) {
	fmt.Fprintf(os.Stderr, "verifctl: "+f+"\n", a...)
	cleanup()
	os.Exit(2)
}

func cleanup() {
	if scratch != "" && os.Getenv("VERIF_KEEP_SCRATCH") == "" {
		os.RemoveAll(scratch)
	}
}

func goEnv() []string {
	env := os.Environ()
	env = append(env, "GOFLAGS=-mod=mod", "GOPROXY=off", "GOSUMDB=off", "GOTOOLCHAIN=local", "CGO_ENABLED=1")
	return env
}

func run(dir string, env []string, name string, args ...string) (string, error) {
	cmd := exec.Command(name, args...)
	cmd.Dir = dir
	cmd.Env = env
	var out bytes.Buffer
	cmd.Stdout = &out
	cmd.Stderr = &out
	err := cmd.Run()
	return out.String(), err
}

func copyTree(src, dst string) error {
	return filepath.WalkDir(src, func(p string, d fs.DirEntry, err error) error {
		if err != nil {
			return err
		}
		rel, _ := filepath.Rel(src, p)
		if rel == ".git" || strings.HasPrefix(rel, ".git"+string(filepath.Separator)) {
			if d.IsDir() {
				return filepath.SkipDir
			}
			return nil
		}
		target := filepath.Join(dst, rel)
		if d.IsDir() {
			return os.MkdirAll(target, 0o755)
		}
		if !d.Type().IsRegular() {
			return nil
		}
		in, err := os.Open(p)
		if err != nil {
			return err
		}
		defer in.Close()
		out, err := os.Create(target)
		if err != nil {
			return err
		}
		defer out.Close()
		_, err = io.Copy(out, in)
		return err
	})
}

func treeDigest(root string) string {
	h := sha256.New()
	var files []string
	filepath.WalkDir(root, func(p string, d fs.DirEntry, err error) error {
		if err != nil {
			return nil
		}
		rel, _ := filepath.Rel(root, p)
		if d.IsDir() {
			if rel == ".git" || rel == "testdata" {
				return filepath.SkipDir
			}
			return nil
		}
		if strings.HasSuffix(p, ".go") && !strings.HasSuffix(p, "_test.go") || rel == "go.mod" {
			files = append(files, rel)
		}
		return nil
	})
	sort.Strings(files)
	for _, f := range files {
		b, _ := os.ReadFile(filepath.Join(root, f))
		fmt.Fprintf(h, "%s\x00%d\x00", f, len(b))
		h.Write(b)
	}
	return hex.EncodeToString(h.Sum(nil))[:16]
}

type instrInfo struct {
	Uncontrolled []struct {
		Kind string `json:"kind"`
		Pos  string `json:"pos"`
	} `json:"uncontrolled"`
	Files int `json:"files"`
}

// buildWorker prepares the scratch copy and returns the worker binary path.
func buildWorker() (bin string, ii instrInfo, buildS float64) {
	t0 := time.Now()
	base := os.Getenv("TMPDIR")
	if base == "" {
		base = "/var/tmp"
		if st, err := os.Stat(base); err != nil || !st.IsDir() {
			base = os.TempDir()
		}
	}
	// scratch copies left behind by checks that were killed (SIGKILL, time limits)
	if old, _ := filepath.Glob(filepath.Join(base, "verif-nas.*")); len(old) > 0 {
		for _, d := range old {
			var pid int
			if _, err := fmt.Sscanf(filepath.Ext(d), ".%d", &pid); err == nil && pid > 0 {
				if err := syscall.Kill(pid, 0); err == syscall.ESRCH {
					os.RemoveAll(d)
				}
			}
		}
	}
	scratch = filepath.Join(base, fmt.Sprintf("verif-nas.%d", os.Getpid()))
	os.RemoveAll(scratch)
	if err := os.MkdirAll(scratch, 0o755); err != nil {
		trouble("scratch: %v", err)
	}
	mod := filepath.Join(scratch, "mod")
	if err := copyTree(repoDir, mod); err != nil {
		trouble("copy %s: %v", repoDir, err)
	}
	env := goEnv()
	// tools from /verif (they do not depend on /repo)
	instr := filepath.Join(scratch, "instrument")
	if out, err := run(verifDir, env, "go", "build", "-o", instr, "./sim/instrument"); err != nil {
		trouble("building the instrumenter failed:\n%s", out)
	}
	gen := filepath.Join(scratch, "gen")
	os.MkdirAll(gen, 0o755)
	out, err := run(mod, env, instr, "-root", mod, "-out", gen, "-json", filepath.Join(scratch, "sites.json"))
	if err != nil {
		trouble("instrumenting the working tree failed (does /repo build?):\n%s", out)
	}
	if b, err := os.ReadFile(filepath.Join(scratch, "sites.json")); err == nil {
		json.Unmarshal(b, &ii)
	}
	for _, d := range []struct{ src, dst, pat string }{
		{"sim/vsimrt", "zzverif/vsimrt", "*.go"},
		{"sim/harness", "zzverif/harness", "*.go"},
		{"sim/simc19", "zzverif/simc19", "*.go"},
		{"sim/corpus", "zzverif/harness", "corpus.txt"},
	} {
		os.MkdirAll(filepath.Join(mod, d.dst), 0o755)
		ms, _ := filepath.Glob(filepath.Join(verifDir, d.src, d.pat))
		for _, m := range ms {
			b, err := os.ReadFile(m)
			if err != nil {
				trouble("%v", err)
			}
			if err := os.WriteFile(filepath.Join(mod, d.dst, filepath.Base(m)), b, 0o644); err != nil {
				trouble("%v", err)
			}
		}
	}
	ms, _ := filepath.Glob(filepath.Join(gen, "*.go"))
	for _, m := range ms {
		b, _ := os.ReadFile(m)
		os.WriteFile(filepath.Join(mod, "zzverif/harness", filepath.Base(m)), b, 0o644)
	}
	bin = filepath.Join(scratch, "simc19")
	if out, err := run(mod, env, "go", "build", "-race", "-trimpath", "-o", bin, "./zzverif/simc19"); err != nil {
		trouble("building the instrumented race worker failed:\n%s", out)
	}
	return bin, ii, time.Since(t0).Seconds()
}

// ---- records (mirror of harness.Record; kept loose) ----

type Violation struct {
	Class  string `json:"class"`
	Key    string `json:"key"`
	Detail string `json:"detail"`
	Task   int    `json:"task"`
	Op     int    `json:"op"`
	Spec   string `json:"spec,omitempty"`
}

type Record struct {
	Index        uint64          `json:"index"`
	RunSeed      uint64          `json:"run_seed"`
	Kind         string          `json:"kind"`
	Shape        string          `json:"shape"`
	Discarded    int             `json:"discarded"`
	Mode         string          `json:"mode"`
	NTasks       int             `json:"ntasks"`
	NOps         int             `json:"nops"`
	Fams         []string        `json:"fams"`
	K            int             `json:"k"`
	Yields       int64           `json:"yields"`
	Switches     int64           `json:"switches"`
	HotSwitches  int64           `json:"hot_switches"`
	SchedDigest  uint64          `json:"sched_digest"`
	ResultDigest uint64          `json:"result_digest"`
	Faults       map[string]int  `json:"faults"`
	Noisy        int             `json:"noisy"`
	Masked       int             `json:"masked"`
	ExpPanics    int             `json:"exp_panics"`
	TooSlow      int             `json:"too_slow"`
	Missing      int             `json:"missing"`
	YieldDiffs   int             `json:"yield_diffs"`
	Truncated    bool            `json:"truncated"`
	Drift        bool            `json:"drift"`
	Hang         bool            `json:"hang"`
	Violations   []Violation     `json:"violations"`
	Plan         json.RawMessage `json:"plan"`
	Sample       string          `json:"sample"`
	BaseDigests  [][]uint64      `json:"base_digests"`
	NoisyOps     []string        `json:"noisy_ops"`
	SlowOps      []string        `json:"slow_ops"`
	NoisyDiff    string          `json:"noisy_diff"`
}

// covRec: dense accumulator in the driver; workers send only the sites they touched.
type covRec struct {
	Coverage bool        `json:"coverage"`
	N        int         `json:"n"`
	Sites    [][5]uint32 `json:"sites"`
	Exec     []uint32    `json:"-"`
	Co       []uint8     `json:"-"`
	Pre      []uint32    `json:"-"`
	Base     []uint8     `json:"-"`
	WallS    float64     `json:"wall_s"`
	Runs     int         `json:"runs"`
}

func (c *covRec) dense() {
	if c.Exec != nil {
		return
	}
	c.Exec, c.Co, c.Pre, c.Base = make([]uint32, c.N), make([]uint8, c.N), make([]uint32, c.N), make([]uint8, c.N)
	for _, s := range c.Sites {
		if int(s[0]) < c.N {
			c.Exec[s[0]], c.Co[s[0]], c.Pre[s[0]], c.Base[s[0]] = s[1], uint8(s[2]), s[3], uint8(s[4])
		}
	}
	c.Sites = nil
}

type workerResult struct {
	recs    []Record
	cov     *covRec
	lastIdx int64
	err     error
	hung    bool
	output  string
}

// runWorker executes one worker process and parses its JSONL output.
func runWorker(bin string, id string, args []string, procs int, stallLimit time.Duration) workerResult {
	out := filepath.Join(scratch, "out."+id+".jsonl")
	race := filepath.Join(scratch, "race."+id)
	full := append([]string{"-out", out, "-racelog", race}, args...)
	if probeFile != "" {
		full = append(full, "-cat", probeFile)
	}
	if freeRun {
		full = append(full, "-free")
		if procs > 0 && procs < 8 {
			procs = 8 // tasks really run in parallel in this mode
		}
	}
	if procs > 0 {
		full = append(full, "-procs", strconv.Itoa(procs))
	}
	cmd := exec.Command(bin, full...)
	cmd.Env = append(os.Environ(), "GORACE=log_path="+race+" halt_on_error=0 exitcode=0 history_size=3 atexit_sleep_ms=0")
	var stderr bytes.Buffer
	cmd.Stderr = &stderr
	cmd.Stdout = &stderr
	res := workerResult{lastIdx: -1}
	if err := cmd.Start(); err != nil {
		res.err = err
		return res
	}
	done := make(chan error, 1)
	go func() { done <- cmd.Wait() }()
	lastSize := int64(-1)
	lastChange := time.Now()
	tick := time.NewTicker(2 * time.Second)
	defer tick.Stop()
wait:
	for {
		select {
		case err := <-done:
			res.err = err
			break wait
		case <-tick.C:
			if st, err := os.Stat(out); err == nil {
				if st.Size() != lastSize {
					lastSize = st.Size()
					lastChange = time.Now()
				}
			}
			if time.Since(lastChange) > stallLimit {
				cmd.Process.Kill()
				<-done
				res.hung = true
				break wait
			}
		}
	}
	res.output = stderr.String()
	f, err := os.Open(out)
	if err != nil {
		if res.err == nil {
			res.err = err
		}
		return res
	}
	defer f.Close()
	sc := bufio.NewScanner(f)
	sc.Buffer(make([]byte, 1<<20), 1<<28)
	for sc.Scan() {
		ln := sc.Bytes()
		switch {
		case bytes.HasPrefix(ln, []byte(`{"start":`)):
			var s struct {
				Start int64 `json:"start"`
			}
			json.Unmarshal(ln, &s)
			res.lastIdx = s.Start
		case bytes.HasPrefix(ln, []byte(`{"coverage":`)):
			var c covRec
			if json.Unmarshal(ln, &c) == nil {
				res.cov = &c
			}
		default:
			var r Record
			if err := json.Unmarshal(ln, &r); err == nil {
				res.recs = append(res.recs, r)
			}
		}
	}
	os.Remove(out)
	return res
}

// ---- known findings ----

type Known struct{ Key, Text string }

func loadKnown() map[string]Known {
	out := map[string]Known{}
	b, err := os.ReadFile(filepath.Join(verifDir, "known_findings.txt"))
	if err != nil {
		return out
	}
	for _, ln := range strings.Split(string(b), "\n") {
		ln = strings.TrimSpace(ln)
		if !strings.HasPrefix(ln, "known:") {
			continue
		}
		var k Known
		prop := ""
		var rest []string
		for _, f := range strings.Fields(ln[len("known:"):]) {
			switch {
			case strings.HasPrefix(f, "property="):
				prop = f[len("property="):]
			case strings.HasPrefix(f, "key=") && k.Key == "":
				k.Key = f[len("key="):]
			default:
				rest = append(rest, f)
			}
		}
		k.Text = strings.Join(rest, " ")
		if prop == "C19" && k.Key != "" {
			out[k.Key] = k
		}
	}
	return out
}

// ---- replay / minimisation ----

type Plan struct {
	Property   string                     `json:"property"`
	TreeDigest string                     `json:"tree_digest,omitempty"`
	Seed       uint64                     `json:"seed"`
	Index      uint64                     `json:"index"`
	RunSeed    uint64                     `json:"run_seed"`
	Tier       string                     `json:"tier"`
	Kind       string                     `json:"kind"`
	Mode       string                     `json:"mode"`
	Pick       int                        `json:"pick"`
	Free       bool                       `json:"free,omitempty"`
	ColdFirst  bool                       `json:"cold_first,omitempty"`
	PreWarm    map[string]json.RawMessage `json:"pre_warm,omitempty"` // (raw: 64-bit seeds do not survive float64)
	Prelude    []uint64                   `json:"prelude,omitempty"`
	Tasks      [][]json.RawMessage        `json:"tasks"`
	Sched      map[string]interface{}     `json:"sched"`
	Faults     []map[string]interface{}   `json:"faults"`
	ReplayMode bool                       `json:"replay_mode,omitempty"`
	Schedule   []Seg                      `json:"schedule,omitempty"`
	Violation  *Violation                 `json:"violation,omitempty"`
	Note       string                     `json:"note,omitempty"`
}

type Seg struct {
	T int32 `json:"t"`
	N int64 `json:"n"`
}

var candSeq int

// probeFile: sample table probed once per check (simc19 -probe); workers load it
// instead of running the library at start-up.
var probeFile string

// inexact: the library contains sources of nondeterminism the scheduler does not
// own (sync.Pool under -race drops a random quarter of the Puts; goroutines,
// channels, timers). Oracles stay sound; exact replay is then not promised:
// replays are retried and the determinism self-test only reports.
var inexact bool

// freeRun: the library starts goroutines or blocks on channels / timers: workers
// run in free-running mode (vsimrt.Config.Free).
var freeRun bool

func isBlockingKind(k string) bool {
	return k == "go" || strings.HasPrefix(k, "chan-") || strings.HasPrefix(k, "select") || k == "range-chan" ||
		strings.HasSuffix(k, ".Wait") || k == "time.Sleep" || k == "time.After" || k == "time.NewTimer" || k == "time.Tick" ||
		k == "time.NewTicker" || k == "time.AfterFunc"
}

// replayUntil replays a plan; on trees flagged inexact it retries (fresh process
// each time) until the key shows up or the attempts are used up.
func replayUntil(bin string, p *Plan, key string) (*Record, error) {
	attempts := 1
	if strings.HasPrefix(key, "race:") {
		// which accesses the detector still remembers when the partner access arrives
		// depends on happens-before edges through the standard library's own sync.Pools
		// (fmt, encoding/binary), which drop and migrate entries at random under -race:
		// the same schedule does not always produce the same reports
		attempts = 4
	}
	if inexact {
		attempts = 6
	}
	var r *Record
	var err error
	for i := 0; i < attempts; i++ {
		r, err = replayPlan(bin, p)
		if err == nil && hasKey(r, key) != nil {
			return r, nil
		}
	}
	return r, err
}

// replayPlan runs a plan in a fresh worker process; returns its record.
func replayPlan(bin string, p *Plan) (*Record, error) {
	candSeq++
	path := filepath.Join(scratch, fmt.Sprintf("cand.%d.json", candSeq))
	b, _ := json.Marshal(p)
	if err := os.WriteFile(path, b, 0o644); err != nil {
		return nil, err
	}
	defer os.Remove(path)
	res := runWorker(bin, fmt.Sprintf("cand%d", candSeq), []string{"-replay", path}, 0, 60*time.Second)
	if res.hung {
		return nil, fmt.Errorf("replay hung")
	}
	if len(res.recs) == 0 {
		return nil, fmt.Errorf("replay produced no record: %v %s", res.err, res.output)
	}
	return &res.recs[0], nil
}

// planDrift reports a top-level key of the worker's plan JSON that does not
// survive a round trip through the driver's Plan struct (would silently change
// what a replay executes).
func planDrift(raw json.RawMessage, p *Plan) string {
	var a, b map[string]json.RawMessage
	if json.Unmarshal(raw, &a) != nil {
		return "unparsable plan"
	}
	out, _ := json.Marshal(p)
	json.Unmarshal(out, &b)
	for k, v := range a {
		if _, ok := b[k]; !ok && string(v) != "null" && string(v) != "false" && string(v) != "0" && string(v) != `""` {
			return k
		}
	}
	return ""
}

// raceLocs splits a race key into its two locations.
func raceLocs(key string) []string {
	if !strings.HasPrefix(key, "race:") {
		return nil
	}
	return strings.Split(key[len("race:"):], "|")
}

// sameViolation: exact key match, except for races. The race detector keeps four
// shadow cells per 8 bytes and evicts at random, so the same racing memory is
// reported through varying pairs of accesses in repeated executions of one and the
// same schedule; two race keys that share a location are the same finding.
func sameViolation(got, want string) bool {
	if got == want {
		return true
	}
	a, b := raceLocs(got), raceLocs(want)
	if a == nil || b == nil {
		return false
	}
	for _, x := range a {
		for _, y := range b {
			if x == y && x != "<outside library>" {
				return true
			}
		}
	}
	return false
}

func hasKey(r *Record, key string) *Violation {
	if r == nil {
		return nil
	}
	for i := range r.Violations {
		if r.Violations[i].Key == key {
			return &r.Violations[i]
		}
	}
	for i := range r.Violations {
		if r.Violations[i].Class == "race" && sameViolation(r.Violations[i].Key, key) {
			return &r.Violations[i]
		}
	}
	return nil
}

func clonePlan(p *Plan) *Plan {
	b, _ := json.Marshal(p)
	var q Plan
	json.Unmarshal(b, &q)
	return &q
}

func numOf(v interface{}) int {
	switch t := v.(type) {
	case float64:
		return int(t)
	case int:
		return t
	}
	return -1
}

// dropTask removes task t (renumbering schedule, faults, stall/low-prio).
func dropTask(p *Plan, t int) *Plan {
	q := clonePlan(p)
	q.Tasks = append(q.Tasks[:t], q.Tasks[t+1:]...)
	var segs []Seg
	for _, s := range q.Schedule {
		switch {
		case int(s.T) == t:
		case int(s.T) > t:
			segs = append(segs, Seg{s.T - 1, s.N})
		default:
			segs = append(segs, s)
		}
	}
	if q.Schedule != nil {
		if segs == nil {
			segs = []Seg{}
		}
		q.Schedule = segs
	}
	var fl []map[string]interface{}
	for _, f := range q.Faults {
		ft := numOf(f["task"])
		switch {
		case ft == t:
		case ft > t:
			f["task"] = ft - 1
			fl = append(fl, f)
		default:
			fl = append(fl, f)
		}
	}
	if fl == nil {
		fl = []map[string]interface{}{}
	}
	q.Faults = fl
	if set, ok := q.Sched["stall_set"].([]interface{}); ok {
		var ns []interface{}
		for _, e := range set {
			switch v := numOf(e); {
			case v == t:
			case v > t:
				ns = append(ns, v-1)
			default:
				ns = append(ns, v)
			}
		}
		if ns == nil {
			delete(q.Sched, "stall_set")
		} else {
			q.Sched["stall_set"] = ns
		}
	}
	for _, k := range []string{"stall", "low_prio"} {
		v := numOf(q.Sched[k])
		switch {
		case v == t:
			q.Sched[k] = -1
		case v > t:
			q.Sched[k] = v - 1
		}
	}
	return q
}

func opFam(raw json.RawMessage) string {
	var o struct {
		Fam string `json:"fam"`
	}
	json.Unmarshal(raw, &o)
	return o.Fam
}

// minimise shrinks a failing plan while the same violation key persists.
func minimise(bin string, p *Plan, key string, budget int, deadline time.Time) (*Plan, int) {
	tried := 0
	try := func(c *Plan) bool {
		if tried >= budget || time.Now().After(deadline) {
			return false
		}
		tried++
		r, err := replayUntil(bin, c, key)
		return err == nil && hasKey(r, key) != nil
	}
	cur := p
	// 0. drop the prelude (all of it, then from the front)
	if len(cur.Prelude) > 0 {
		c := clonePlan(cur)
		c.Prelude = nil
		if try(c) {
			cur = c
		}
	}
	for len(cur.Prelude) > 0 {
		c := clonePlan(cur)
		c.Prelude = c.Prelude[1:]
		if !try(c) {
			break
		}
		cur = c
	}
	// 1. drop tasks (pairs in recycle mode)
	for t := len(cur.Tasks) - 1; t >= 0 && len(cur.Tasks) > 1; t-- {
		if t >= len(cur.Tasks) {
			continue
		}
		var c *Plan
		if cur.Mode == "recycle" {
			if t%2 == 1 && t-1 >= 0 && len(cur.Tasks) > 2 {
				c = dropTask(dropTask(cur, t), t-1)
				t--
			} else if t%2 == 0 && t == len(cur.Tasks)-1 {
				c = dropTask(cur, t) // the odd private task at the end
			} else {
				continue
			}
		} else {
			c = dropTask(cur, t)
		}
		if try(c) {
			cur = c
		}
	}
	// 2. drop operations (never the hand-over skeleton of the recycle mode)
	for t := 0; t < len(cur.Tasks); t++ {
		for o := len(cur.Tasks[t]) - 1; o >= 0; o-- {
			if len(cur.Tasks[t]) <= 1 {
				break
			}
			f := opFam(cur.Tasks[t][o])
			if strings.HasPrefix(f, "rc") && f != "rcuse" {
				continue
			}
			c := clonePlan(cur)
			c.Tasks[t] = append(c.Tasks[t][:o], c.Tasks[t][o+1:]...)
			if try(c) {
				cur = c
			}
		}
	}
	// 2b. long-lived callers: no warm-up, then halve it while the violation persists
	if cur.PreWarm != nil {
		c := clonePlan(cur)
		c.PreWarm = nil
		if try(c) {
			cur = c
		}
	}
	rawInt := func(r json.RawMessage) int {
		n, err := strconv.Atoi(strings.TrimSpace(string(r)))
		if err != nil {
			return -1
		}
		return n
	}
	for cur.PreWarm != nil && rawInt(cur.PreWarm["warm"]) > 1 {
		c := clonePlan(cur)
		c.PreWarm["warm"] = json.RawMessage(strconv.Itoa(rawInt(cur.PreWarm["warm"]) / 2))
		if !try(c) {
			break
		}
		cur = c
	}
	for _, field := range []string{"warm", "cool"} {
		for t := 0; t < len(cur.Tasks); t++ {
			for o := 0; o < len(cur.Tasks[t]); o++ {
				for {
					var spec map[string]json.RawMessage
					if json.Unmarshal(cur.Tasks[t][o], &spec) != nil || spec[field] == nil || rawInt(spec[field]) < 1 {
						break
					}
					w := rawInt(spec[field]) / 2
					if w == 0 {
						delete(spec, field)
					} else {
						spec[field] = json.RawMessage(strconv.Itoa(w))
					}
					raw, _ := json.Marshal(spec)
					c := clonePlan(cur)
					c.Tasks[t][o] = raw
					if !try(c) {
						break
					}
					cur = c
				}
			}
		}
	}
	// 3. drop faults
	for i := len(cur.Faults) - 1; i >= 0; i-- {
		c := clonePlan(cur)
		c.Faults = append(c.Faults[:i], c.Faults[i+1:]...)
		if try(c) {
			cur = c
		}
	}
	// 4. schedule: empty, then truncations, then single-segment removal
	if cur.ReplayMode && len(cur.Schedule) > 0 {
		c := clonePlan(cur)
		c.Schedule = []Seg{}
		if try(c) {
			cur = c
		}
	}
	for len(cur.Schedule) > 1 {
		c := clonePlan(cur)
		c.Schedule = c.Schedule[:len(c.Schedule)/2]
		if !try(c) {
			break
		}
		cur = c
	}
	for i := len(cur.Schedule) - 1; i >= 0 && len(cur.Schedule) > 0; i-- {
		if i >= len(cur.Schedule) {
			continue
		}
		c := clonePlan(cur)
		c.Schedule = append(c.Schedule[:i], c.Schedule[i+1:]...)
		if try(c) {
			cur = c
		}
	}
	return cur, tried
}

// ---- main check ----

type tierCfg struct {
	coldJobs   int // cold-order oracle on every coldJobs-th job (1 = all)
	swarm      int
	detSeeds   int
	stallLimit time.Duration
}

const swarmBatch = 25

var tiers = map[string]tierCfg{
	"quick":    {coldJobs: 3, swarm: 1500, detSeeds: 8, stallLimit: 240 * time.Second},
	"thorough": {coldJobs: 1, swarm: 100000, detSeeds: 32, stallLimit: 420 * time.Second},
}

func seedFromEnv() uint64 {
	s := os.Getenv("VERIF_SEED")
	if s == "" {
		return 1
	}
	if v, err := strconv.ParseUint(s, 0, 64); err == nil {
		return v
	}
	if v, err := strconv.ParseInt(s, 0, 64); err == nil {
		return uint64(v)
	}
	h := uint64(1469598103934665603)
	for i := 0; i < len(s); i++ {
		h = (h ^ uint64(s[i])) * 1099511628211
	}
	return h
}

func main() {
	if len(os.Args) < 2 || os.Args[1] != "c19" {
		fmt.Fprintln(os.Stderr, "usage: verifctl c19 [-tier quick|thorough] [-replay file] [-runs n]")
		os.Exit(2)
	}
	fs := flag.NewFlagSet("c19", flag.ExitOnError)
	tier := fs.String("tier", "", "quick|thorough (default $VERIF_TIER or quick)")
	replay := fs.String("replay", "", "replay a C19 plan file against the current tree")
	swarmOverride := fs.Int("swarm", -1, "override the number of swarm runs (development)")
	workersFlag := fs.Int("workers", 0, "worker processes (default: number of CPUs)")
	fs.Parse(os.Args[2:])
	if d := os.Getenv("VERIF_REPO"); d != "" {
		repoDir = d
	}
	if d := os.Getenv("VERIF_DIR"); d != "" {
		verifDir = d
	}
	outDir = verifDir
	if d := os.Getenv("VERIF_OUT"); d != "" {
		outDir = d
	}
	if *tier == "" {
		*tier = os.Getenv("VERIF_TIER")
	}
	if *tier != "thorough" {
		*tier = "quick"
	}
	sig := make(chan os.Signal, 1)
	signal.Notify(sig, syscall.SIGINT, syscall.SIGTERM)
	go func() {
		<-sig
		cleanup()
		os.Exit(2)
	}()
	defer cleanup()

	seed := seedFromEnv()
	t0 := time.Now()
	bin, ii, buildS := buildWorker()
	digest := treeDigest(repoDir)
	inexact = len(ii.Uncontrolled) > 0
	for _, u := range ii.Uncontrolled {
		if isBlockingKind(u.Kind) {
			freeRun = true
		}
	}

	if *replay != "" {
		os.Exit(doReplay(bin, *replay, digest))
	}

	fmt.Printf("verifctl c19 tier=%s VERIF_SEED=%d tree=%s build=%.1fs\n", *tier, seed, digest, buildS)
	if freeRun {
		fmt.Printf("note: the library starts goroutines or blocks on channels/timers (%d such sites, e.g. %s@%s); there is no seam for those, so tasks run "+
			"in free-running mode: real parallel goroutines under the race detector, results still compared with the sequential run, schedules not replayable.\n",
			len(ii.Uncontrolled), ii.Uncontrolled[0].Kind, ii.Uncontrolled[0].Pos)
	}
	// probe the corpus once; every worker then starts cold
	pf := filepath.Join(scratch, "probe.json")
	if out, err := run(scratch, os.Environ(), bin, "-probe", pf); err != nil {
		trouble("worker -probe failed:\n%s", out)
	}
	probeFile = pf
	// catalogue info
	infoOut, err := run(scratch, os.Environ(), bin, "-cat", pf, "-info")
	if err != nil {
		trouble("worker -info failed:\n%s", infoOut)
	}
	var info map[string]interface{}
	if err := json.Unmarshal([]byte(strings.TrimSpace(infoOut)), &info); err != nil {
		trouble("worker -info output: %v\n%s", err, infoOut)
	}
	tc := tiers[*tier]
	focused := numOf(info["focused_quick"])
	if *tier == "thorough" {
		focused = numOf(info["focused_thorough"])
	}
	if *swarmOverride >= 0 {
		tc.swarm = *swarmOverride
	}
	total := focused + tc.swarm
	workers := runtime.NumCPU()
	if *workersFlag > 0 {
		workers = *workersFlag
	}
	if workers > total {
		workers = total
	}

	// Jobs: every focused group and every batch of swarm runs is one fresh worker
	// process (a cold library at its first run); a pool of `workers` runs them.
	var jobs [][2]int
	gkey := "groups_quick"
	if *tier == "thorough" {
		gkey = "groups_thorough"
	}
	if gl, ok := info[gkey].([]interface{}); ok {
		for _, g := range gl {
			if pr, ok := g.([]interface{}); ok && len(pr) == 2 {
				jobs = append(jobs, [2]int{numOf(pr[0]), numOf(pr[1])})
			}
		}
	}
	if len(jobs) == 0 {
		trouble("worker -info reported no focus groups")
	}
	delete(info, "groups_quick")
	delete(info, "groups_thorough")
	for i := focused; i < total; i += swarmBatch {
		j := i + swarmBatch
		if j > total {
			j = total
		}
		jobs = append(jobs, [2]int{i, j})
	}
	results := make([]workerResult, len(jobs))
	var wg sync.WaitGroup
	next := make(chan int, len(jobs))
	for j := range jobs {
		next <- j
	}
	close(next)
	var failed atomic.Bool
	for w := 0; w < workers; w++ {
		wg.Add(1)
		go func(w int) {
			defer wg.Done()
			for j := range next {
				if failed.Load() {
					return
				}
				args := []string{"-seed", strconv.FormatUint(seed, 10), "-tier", *tier, "-from", strconv.Itoa(jobs[j][0]), "-to", strconv.Itoa(jobs[j][1])}
				results[j] = runWorker(bin, fmt.Sprintf("w%d", w), args, 2, tc.stallLimit)
				if results[j].hung || results[j].err != nil || results[j].cov == nil {
					failed.Store(true)
				}
			}
		}(w)
	}
	wg.Wait()
	var recs []Record
	var cov *covRec
	jobOf := map[uint64]int{}
	for j, r := range results {
		if r.hung {
			fmt.Printf("HANG: a worker (runs %d..%d) made no progress for %v; last started run index %d (VERIF_SEED=%d tier=%s). "+
				"The simulator cannot tell a library deadlock from a blocking primitive it has no seam for; not reported as a violation.\n", jobs[j][0], jobs[j][1]-1, tc.stallLimit, r.lastIdx, seed, *tier)
			trouble("worker hang (see above)")
		}
		if r.err != nil || (r.cov == nil && (r.recs != nil || !failed.Load())) {
			trouble("worker for runs %d..%d failed: %v (last started run index %d)\n%s", jobs[j][0], jobs[j][1]-1, r.err, r.lastIdx, tail(r.output, 4000))
		}
		if r.cov == nil {
			continue
		}
		for i := range r.recs {
			jobOf[r.recs[i].Index] = j
		}
		recs = append(recs, r.recs...)
		if cov == nil {
			cov = r.cov
			cov.dense()
		} else {
			mergeCov(cov, r.cov)
		}
	}
	sort.Slice(recs, func(i, j int) bool { return recs[i].Index < recs[j].Index })
	if len(recs) != total {
		trouble("expected %d run records, got %d", total, len(recs))
	}
	simWall := time.Since(t0).Seconds() - buildS

	// determinism self-test
	det := selfTest(bin, seed, *tier, recs, jobs, tc.detSeeds)
	if det.schedMismatch != "" {
		if !inexact {
			trouble("determinism self-test: schedule digests differ between processes: %s", det.schedMismatch)
		}
		fmt.Printf("note: the library under test uses constructs the scheduler does not own (%s, ...); executions of one seed differ between processes (%s). "+
			"Race and equivalence oracles are unaffected; replay is best effort.\n", ii.Uncontrolled[0].Kind+"@"+ii.Uncontrolled[0].Pos, det.schedMismatch)
		det.resultMismatch = nil
	}

	// cold-order oracle: first runs of evenly spaced private jobs, re-executed
	// sequentially in reverse task order in fresh processes
	coldViol, coldChecked := coldOrderCheck(bin, seed, *tier, recs, jobs, tc.coldJobs)

	// violations
	known := loadKnown()
	type group struct {
		key  string
		recs []*Record
	}
	groups := map[string]*group{}
	var keys []string
	harnessRace := ""
	for i := range recs {
		r := &recs[i]
		if r.Hang {
			trouble("run %d reported a scheduler hang/deadlock (VERIF_SEED=%d): %s", r.Index, seed, r.Sample)
		}
		for _, v := range r.Violations {
			if v.Class == "harness-race" {
				harnessRace = v.Detail
				continue
			}
			gk := v.Key
			if v.Class == "race" {
				for _, k := range keys {
					if sameViolation(k, v.Key) {
						gk = k
						break
					}
				}
			}
			g := groups[gk]
			if g == nil {
				g = &group{key: gk}
				groups[gk] = g
				keys = append(keys, gk)
			}
			if len(g.recs) == 0 || g.recs[len(g.recs)-1] != r {
				g.recs = append(g.recs, r)
			}
		}
	}
	if harnessRace != "" {
		trouble("a data race was reported whose frames are all outside the library (harness bug):\n%s", harnessRace)
	}
	for i := range coldViol {
		cv := &coldViol[i]
		if groups[cv.v.Key] == nil {
			groups[cv.v.Key] = &group{key: cv.v.Key}
			keys = append(keys, cv.v.Key)
		}
	}
	// Outcomes that are stable within a process (they passed the two sequential runs)
	// but differ between processes under one and the same schedule depend on something
	// the process is born with (a hash seed, an address, the GC's timing). C19 says
	// nothing about that, so it is reported as a note and never as a violation; what it
	// costs is byte-exact replay of the runs concerned.
	for i, m := range det.resultMismatch {
		if i < 3 {
			fmt.Printf("note: run index %d (%s): %s although schedule and yields are identical - the outcome depends on the process, not on the interleaving; not a C19 matter, replay of such runs is best effort\n", m.index, m.fams, m.detail)
		}
	}
	det.procDependent = len(det.resultMismatch)
	det.resultMismatch = nil
	rank := func(k string) int {
		switch {
		case strings.HasPrefix(k, "race:"):
			return 0
		case strings.HasPrefix(k, "order-dependence:"):
			return 2
		case strings.HasPrefix(k, "panic-mismatch:"):
			return 3
		}
		return 4
	}
	sort.Slice(keys, func(i, j int) bool {
		if rank(keys[i]) != rank(keys[j]) {
			return rank(keys[i]) < rank(keys[j])
		}
		return keys[i] < keys[j]
	})
	minimisedByRank := map[int]int{}
	rc := 0
	nviol := 0
	var reported []map[string]interface{}
	minBudgetEnd := time.Now().Add(240 * time.Second)
	for _, k := range keys {
		g := groups[k]
		if kn, ok := known[k]; ok {
			fmt.Printf("KNOWN-FINDING: property=C19 %s\n", kn.Text)
			continue
		}
		nviol++
		if len(g.recs) == 0 && strings.HasPrefix(k, "order-dependence:") {
			for i := range coldViol {
				cv := &coldViol[i]
				if cv.v.Key != k {
					continue
				}
				path := filepath.Join(outDir, "replays", "C19-cold-"+sanitize(k)+".json")
				os.MkdirAll(filepath.Dir(path), 0o755)
				os.WriteFile(path, cv.plan, 0o644)
				fmt.Printf("C19 violated: %s\n  class=order-dependence (cold-order oracle): %s\n", k, cv.v.Detail)
				fmt.Printf("VIOLATION property=C19 replay=%s\n", path)
				rc = 1
				break
			}
			continue
		}
		if len(reported) >= 3 || minimisedByRank[rank(k)] >= 2 {
			fmt.Printf("C19 violated (also; not minimised, most likely the same root cause as above): %s in %d run(s), first index %d\n", k, len(g.recs), g.recs[0].Index)
			rc = 1
			continue
		}
		minimisedByRank[rank(k)]++
		// pick the smallest failing run
		best := g.recs[0]
		for _, r := range g.recs {
			if r.NOps*r.NTasks < best.NOps*best.NTasks {
				best = r
			}
		}
		var plan Plan
		if err := json.Unmarshal(best.Plan, &plan); err != nil {
			trouble("violating run %d carries no plan: %v", best.Index, err)
		}
		if drift := planDrift(best.Plan, &plan); drift != "" {
			trouble("the driver's plan schema lost a field of the worker's plan (%s): fix cmd/verifctl Plan", drift)
		}
		plan.TreeDigest = digest
		// first: does the executed schedule replay in a fresh process?
		rr, err := replayUntil(bin, &plan, k)
		if err != nil || hasKey(rr, k) == nil {
			// it was not the first run of its worker process: replay its predecessors too
			// (whatever they left behind in the library is part of the finding)
			if j, ok := jobOf[best.Index]; ok && uint64(jobs[j][0]) < best.Index {
				withPre := clonePlan(&plan)
				for i := uint64(jobs[j][0]); i < best.Index; i++ {
					withPre.Prelude = append(withPre.Prelude, i)
				}
				if r2, e2 := replayUntil(bin, withPre, k); e2 == nil && hasKey(r2, k) != nil {
					plan = *withPre
					rr, err = r2, nil
				}
			}
		}
		if err != nil || hasKey(rr, k) == nil {
			// fall back to regeneration from the seed (same decisions, PRNG-driven)
			gen := clonePlan(&plan)
			gen.Schedule = nil
			gen.ReplayMode = false
			gen.Faults = nil
			gen.Note = "replayed by regeneration from the run seed"
			rr2, err2 := replayUntil(bin, gen, k)
			if (err2 != nil || hasKey(rr2, k) == nil) && (inexact || strings.HasPrefix(k, "race:")) {
				// a race report is sound by itself (the detector has no false positives); on a
				// tree that is nondeterministic by construction the same holds for a divergence
				// seen in the main exploration: report what was observed
				v := hasKey(best, k)
				plan.Violation = v
				plan.Note = "observed in the main exploration; not reproduced in the replay attempts (race reports depend on happens-before edges through std-lib pools that behave randomly under -race; or the library under test itself is nondeterministic: sync.Pool / goroutines)"
				path := filepath.Join(outDir, "replays", "C19-"+sanitize(k)+".json")
				os.MkdirAll(filepath.Dir(path), 0o755)
				b, _ := json.MarshalIndent(&plan, "", " ")
				os.WriteFile(path, append(b, '\n'), 0o644)
				fmt.Printf("C19 violated: %s\n  class=%s, seen in %d run(s), first index %d; replay is best effort on this tree (see note in the file)\n  %s\n", k, v.Class, len(g.recs), g.recs[0].Index, firstLines(v.Detail, 12))
				fmt.Printf("VIOLATION property=C19 replay=%s\n", path)
				reported = append(reported, map[string]interface{}{"key": k, "replay": path})
				rc = 1
				continue
			}
			if err2 != nil || hasKey(rr2, k) == nil {
				trouble("violation %s of run %d (VERIF_SEED=%d) does not reproduce in a fresh process, neither from its recorded schedule nor from its seed; treating as machinery trouble, not reporting it", k, best.Index, seed)
			}
			plan = *gen
		}
		min, tried := minimise(bin, &plan, k, 300, minBudgetEnd)
		final, err := replayUntil(bin, min, k)
		v := hasKey(final, k)
		if err != nil || v == nil {
			min = &plan
			final, err = replayUntil(bin, min, k)
			v = hasKey(final, k)
			if (err != nil || v == nil) && inexact {
				v = hasKey(best, k)
				err = nil
			}
			if err != nil || v == nil {
				trouble("violation %s stopped reproducing during minimisation", k)
			}
		}
		min.Violation = v
		min.TreeDigest = digest
		path := filepath.Join(outDir, "replays", "C19-"+sanitize(k)+".json")
		os.MkdirAll(filepath.Dir(path), 0o755)
		b, _ := json.MarshalIndent(min, "", " ")
		os.WriteFile(path, append(b, '\n'), 0o644)
		nops := 0
		for _, t := range min.Tasks {
			nops += len(t)
		}
		fmt.Printf("C19 violated: %s\n  class=%s, seen in %d run(s), first index %d; minimised to %d task(s), %d op(s), %d schedule segment(s), %d fault(s) after %d candidates\n  %s\n",
			k, v.Class, len(g.recs), g.recs[0].Index, len(min.Tasks), nops, len(min.Schedule), len(min.Faults), tried, firstLines(v.Detail, 12))
		fmt.Printf("VIOLATION property=C19 replay=%s\n", path)
		reported = append(reported, map[string]interface{}{"key": k, "replay": path})
		rc = 1
	}

	writeEvidence(*tier, seed, digest, info, ii, recs, cov, det, buildS, simWall, time.Since(t0).Seconds(), nviol, workers, len(jobs), coldChecked)
	if rc == 0 {
		fmt.Printf("C19 held on everything explored (%d simulated runs, %d with mid-operation pre-emption)\n", len(recs), countPreempted(recs))
	}
	cleanup()
	os.Exit(rc)
}

func countPreempted(recs []Record) int {
	n := 0
	for _, r := range recs {
		if r.Switches > 0 && r.NTasks >= 2 {
			n++
		}
	}
	return n
}

func tail(s string, n int) string {
	if len(s) > n {
		return s[len(s)-n:]
	}
	return s
}

func firstLines(s string, n int) string {
	ls := strings.Split(s, "\n")
	if len(ls) > n {
		ls = append(ls[:n], "...")
	}
	return strings.Join(ls, "\n  ")
}

func sanitize(s string) string {
	r := strings.NewReplacer("/", "_", "<", "", ">", "", " ", "_", "|", "--", ":", "_", "=", "_", "*", "any")
	s = r.Replace(s)
	if len(s) > 120 {
		s = s[:120]
	}
	return s
}

func mergeCov(a, b *covRec) {
	a.dense()
	b.dense()
	for i := range a.Exec {
		if i < len(b.Exec) {
			s := uint64(a.Exec[i]) + uint64(b.Exec[i])
			if s > 0xffffffff {
				s = 0xffffffff
			}
			a.Exec[i] = uint32(s)
			a.Pre[i] += b.Pre[i]
			a.Co[i] |= b.Co[i]
			a.Base[i] |= b.Base[i]
		}
	}
	a.Runs += b.Runs
	if b.WallS > a.WallS {
		a.WallS = b.WallS
	}
}

// ---- cold-order oracle ----

type coldFinding struct {
	v    Violation
	plan []byte
}

// coldOrderCheck re-executes the first run of evenly spaced jobs in fresh processes
// (sequentially, last task first, nothing else before) and compares each operation's
// outcome with the sequential outcome recorded by the main exploration.
func coldOrderCheck(bin string, seed uint64, tier string, recs []Record, jobs [][2]int, n int) ([]coldFinding, int) {
	byIdx := map[uint64]*Record{}
	for i := range recs {
		byIdx[recs[i].Index] = &recs[i]
	}
	var cand []int
	for j := range jobs {
		if r := byIdx[uint64(jobs[j][0])]; r != nil && r.Mode != "recycle" && r.NTasks >= 2 && len(r.BaseDigests) > 0 {
			cand = append(cand, j)
		}
	}
	if len(cand) == 0 || n <= 0 {
		return nil, 0
	}
	// n > 0: every n-th candidate job, the phase rotating with the seed; n == 1: all
	var picked []int
	for i := range cand {
		if (uint64(i)+seed)%uint64(n) == 0 {
			picked = append(picked, cand[i])
		}
	}
	var mu sync.Mutex
	var out []coldFinding
	checked := 0
	var wg sync.WaitGroup
	ch := make(chan int, len(picked))
	for _, j := range picked {
		ch <- j
	}
	close(ch)
	for w := 0; w < runtime.NumCPU(); w++ {
		wg.Add(1)
		go func(w int) {
			defer wg.Done()
			for j := range ch {
				idx := jobs[j][0]
				r := runWorker(bin, fmt.Sprintf("cold%d", w), []string{"-seed", strconv.FormatUint(seed, 10), "-tier", tier,
					"-from", strconv.Itoa(idx), "-to", strconv.Itoa(idx + 1), "-coldorder"}, 2, 120*time.Second)
				if r.hung || r.err != nil || len(r.recs) == 0 {
					continue
				}
				cold := &r.recs[0]
				ref := byIdx[uint64(idx)]
				mu.Lock()
				checked++
				for t := range cold.BaseDigests {
					if t >= len(ref.BaseDigests) {
						break
					}
					for o := range cold.BaseDigests[t] {
						if o >= len(ref.BaseDigests[t]) {
							break
						}
						a, b := ref.BaseDigests[t][o], cold.BaseDigests[t][o]
						if a == 0 || b == 0 || a == b {
							continue
						}
						// control: six more fresh processes, three in the original task order and
						// three in reverse. Only "stable in each order, different between the orders" is
						// order dependence; anything else is an outcome that varies by itself
						// between processes, which C19 says nothing about.
						if !coldConfirm(bin, seed, tier, idx, t, o) {
							mu.Unlock()
							goto next
						}
						var plan map[string]interface{}
						json.Unmarshal(cold.Plan, &plan)
						name := "?"
						if ts, ok := plan["tasks"].([]interface{}); ok && t < len(ts) {
							if ops, ok := ts[t].([]interface{}); ok && o < len(ops) {
								if m, ok := ops[o].(map[string]interface{}); ok {
									name = fmt.Sprint(m["fam"], "/", m["name"])
								}
							}
						}
						plan["cold_order_check"] = true
						pb, _ := json.MarshalIndent(plan, "", " ")
						out = append(out, coldFinding{v: Violation{Class: "order-dependence", Key: "order-dependence:" + name, Task: t, Op: o,
							Detail: fmt.Sprintf("run %d, task %d op %d: the sequential outcome in a fresh process where the LAST task's operations touch the library first differs from the sequential outcome of the main exploration (digest %x vs %x): the result depends on who called first", idx, t, o, b, a)}, plan: pb})
						mu.Unlock()
						goto next
					}
				}
				mu.Unlock()
			next:
			}
		}(w)
	}
	wg.Wait()
	return out, checked
}

// coldConfirm re-executes run idx in six more fresh processes, three times in the
// original task order and three times in reverse, and reports whether operation (t,o) is stable in
// each order and differs between the orders. (The main exploration's digest is only
// the trigger: there the library was first touched inside the simulation.)
func coldConfirm(bin string, seed uint64, tier string, idx, t, o int) bool {
	get := func(extra ...string) uint64 {
		args := append([]string{"-seed", strconv.FormatUint(seed, 10), "-tier", tier,
			"-from", strconv.Itoa(idx), "-to", strconv.Itoa(idx + 1), "-coldorder"}, extra...)
		r := runWorker(bin, "coldc", args, 2, 120*time.Second)
		if r.hung || r.err != nil || len(r.recs) == 0 {
			return 0
		}
		d := r.recs[0].BaseDigests
		if t >= len(d) || o >= len(d[t]) {
			return 0
		}
		return d[t][o]
	}
	f1, f2, f3 := get("-coldfwd"), get("-coldfwd"), get("-coldfwd")
	r1, r2, r3 := get(), get(), get()
	return f1 != 0 && r1 != 0 && f1 == f2 && f2 == f3 && r1 == r2 && r2 == r3 && f1 != r1
}

// ---- determinism self-test ----

type detMismatch struct {
	index  uint64
	fams   string
	detail string
	plan   []byte
}

type detResult struct {
	seeds          int
	executions     int
	schedMismatch  string
	resultMismatch []detMismatch
	procDependent  int // runs whose outcome differs between processes under one schedule (note, not a violation)
}

func selfTest(bin string, seed uint64, tier string, recs []Record, jobs [][2]int, n int) detResult {
	var res detResult
	if len(recs) == 0 || len(jobs) == 0 {
		return res
	}
	byIdx := map[uint64]*Record{}
	for i := range recs {
		byIdx[recs[i].Index] = &recs[i]
	}
	// Whole jobs are re-executed, each in a fresh process, so that every run meets the
	// library in the same state (cold at the first run of the job, warmed by the same
	// predecessors afterwards) as in the main exploration. Evenly spaced jobs,
	// preferring ones that contain a pre-empted run.
	var pick []int
	step := len(jobs) / n
	if step == 0 {
		step = 1
	}
	for i := 0; i < len(jobs) && len(pick) < n; i += step {
		j := i
		for k := 0; k < step && i+k < len(jobs); k++ {
			if r := byIdx[uint64(jobs[i+k][0])]; r != nil && r.Switches > 0 {
				j = i + k
				break
			}
		}
		pick = append(pick, j)
	}
	res.seeds = len(pick)
	for _, procs := range []int{1, 4, 16} {
		for _, j := range pick {
			r := runWorker(bin, fmt.Sprintf("det%d", procs), []string{"-seed", strconv.FormatUint(seed, 10), "-tier", tier,
				"-from", strconv.Itoa(jobs[j][0]), "-to", strconv.Itoa(jobs[j][1]), "-plans"}, procs, 180*time.Second)
			if r.hung || r.err != nil {
				res.schedMismatch = fmt.Sprintf("self-test worker (GOMAXPROCS=%d, runs %d..%d) failed: hung=%v err=%v", procs, jobs[j][0], jobs[j][1]-1, r.hung, r.err)
				return res
			}
			for i := range r.recs {
				x := &r.recs[i]
				ref := byIdx[x.Index]
				if ref == nil {
					continue
				}
				res.executions++
				if x.SchedDigest != ref.SchedDigest || x.Yields != ref.Yields || x.Switches != ref.Switches {
					res.schedMismatch = fmt.Sprintf("run index %d: main run sched=%x yields=%d switches=%d, fresh process (GOMAXPROCS=%d) sched=%x yields=%d switches=%d",
						x.Index, ref.SchedDigest, ref.Yields, ref.Switches, procs, x.SchedDigest, x.Yields, x.Switches)
					return res
				}
				if x.ResultDigest != ref.ResultDigest {
					res.resultMismatch = append(res.resultMismatch, detMismatch{index: x.Index, fams: strings.Join(x.Fams, "+"),
						detail: fmt.Sprintf("result digest %x vs %x at GOMAXPROCS=%d", ref.ResultDigest, x.ResultDigest, procs), plan: x.Plan})
				}
			}
		}
	}
	return res
}

// ---- replay command ----

func doReplay(bin, path, digest string) int {
	b, err := os.ReadFile(path)
	if err != nil {
		trouble("%v", err)
	}
	var p Plan
	if err := json.Unmarshal(b, &p); err != nil {
		trouble("bad replay file: %v", err)
	}
	want := p.Violation
	if p.TreeDigest != "" && p.TreeDigest != digest {
		fmt.Printf("note: replay file was recorded on tree %s, current tree is %s\n", p.TreeDigest, digest)
	}
	r, err := replayPlan(bin, &p)
	if err != nil {
		trouble("replay failed: %v", err)
	}
	known := loadKnown()
	rc := 0
	seen := map[string]bool{}
	for _, v := range r.Violations {
		if v.Class == "harness-race" || seen[v.Key] {
			continue
		}
		seen[v.Key] = true
		if _, ok := known[v.Key]; ok {
			continue
		}
		mark := ""
		if want != nil && v.Key == want.Key {
			mark = " (the recorded violation)"
		}
		fmt.Printf("C19 violated on replay%s: %s\n  %s\n", mark, v.Key, firstLines(v.Detail, 14))
		rc = 1
	}
	if rc == 1 {
		fmt.Printf("VIOLATION property=C19 replay=%s\n", path)
	} else {
		fmt.Printf("replay %s: no violation on the current tree (sched digest %x, %d yields, %d switches)\n", path, r.SchedDigest, r.Yields, r.Switches)
	}
	return rc
}
