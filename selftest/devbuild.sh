#!/bin/bash
# Development aid: builds the instrumented race worker for a tree into a directory that
# is KEPT (the checks themselves use a scratch copy that is removed). Remove it yourself.
# usage: selftest/devbuild.sh <repo dir> <out dir>     then: <out>/simc19 -probe <out>/probe.json ...
set -e
REPO=${1:?repo}; OUT=${2:?out dir}
V=$(cd "$(dirname "$0")/.." && pwd)
export GOFLAGS=-mod=mod GOPROXY=off GOSUMDB=off GOTOOLCHAIN=local
rm -rf "$OUT"; mkdir -p "$OUT/mod" "$OUT/gen"
(cd "$REPO" && tar --exclude=.git -cf - .) | (cd "$OUT/mod" && tar xf -)
(cd "$V" && cp "$REPO/go.sum" go.sum && go build -o "$OUT/instrument" ./sim/instrument)
(cd "$OUT/mod" && "$OUT/instrument" -root "$OUT/mod" -out "$OUT/gen" -json "$OUT/sites.json")
mkdir -p "$OUT/mod/zzverif/vsimrt" "$OUT/mod/zzverif/harness" "$OUT/mod/zzverif/simc19"
cp "$V"/sim/vsimrt/*.go "$OUT/mod/zzverif/vsimrt/"
cp "$V"/sim/harness/*.go "$V"/sim/corpus/corpus.txt "$OUT"/gen/*.go "$OUT/mod/zzverif/harness/"
cp "$V"/sim/simc19/*.go "$OUT/mod/zzverif/simc19/"
(cd "$OUT/mod" && go build -race -trimpath -o "$OUT/simc19" ./zzverif/simc19)
(cd "$OUT" && ./simc19 -probe "$OUT/probe.json")
echo "built $OUT/simc19"
