#!/bin/bash
# Confirms an independently written breaking change before it is kept under seeded/:
# in a scratch worktree the patch applies, the tree builds, the repository's tests pass,
# the demonstration fails with the change and passes without it.
# usage: selftest/verify_seed.sh <dir with patch.diff demo_test.go meta.json> <scratch worktree> [suffix for patch2/demo2/meta2]
OUT=${1:?}; WT=${2:?}; SFX=${3:-}
export GOFLAGS=-mod=mod GOPROXY=off GOSUMDB=off GOTOOLCHAIN=local
P=$OUT/patch$SFX.diff; D=$OUT/demo${SFX}_test.go; M=$OUT/meta$SFX.json
pkg=$(python3 -c 'import json,sys; print(json.load(open(sys.argv[1]))["demo_package_dir"])' "$M")
prop=$(python3 -c 'import json,sys; print(json.load(open(sys.argv[1]))["property"])' "$M")
race=""; [ "$prop" = C19 ] && race="-race"
cd "$WT" || exit 2
git checkout -q -- . && git clean -fdq
git apply "$P" || { echo "VERIFY: patch does not apply"; exit 1; }
go build ./... || { echo "VERIFY: does not build"; exit 1; }
go test -vet=off -count=1 ./... > /tmp/verify_seed.$$.log 2>&1 || { echo "VERIFY: test suite FAILS with the change"; tail -20 /tmp/verify_seed.$$.log; rm -f /tmp/verify_seed.$$.log; exit 1; }
rm -f /tmp/verify_seed.$$.log
cp "$D" "$WT/$pkg/zz_demo_test.go"
if go test $race -vet=off -count=1 -run 'TestDemo' "./$pkg/" > /tmp/verify_demo.$$.log 2>&1; then echo "VERIFY: demo PASSES with the change (should fail)"; w=bad; else echo "demo fails with the change: ok ($(grep -c 'DATA RACE' /tmp/verify_demo.$$.log) race reports)"; w=ok; fi
git apply -R "$P"
if go test $race -vet=off -count=1 -run 'TestDemo' "./$pkg/" > /tmp/verify_demo.$$.log 2>&1; then echo "demo passes without the change: ok"; else echo "VERIFY: demo FAILS without the change"; tail -20 /tmp/verify_demo.$$.log; w=bad; fi
rm -f "$WT/$pkg/zz_demo_test.go" /tmp/verify_demo.$$.log
git checkout -q -- . && git clean -fdq
[ $w = ok ] && echo "VERIFY OK $OUT$SFX" || { echo "VERIFY BAD"; exit 1; }
