#!/usr/bin/env python3
"""Large determinism self-test of the C19 simulator (DESIGN.md 3.8).

Builds the instrumented race worker from /repo's working tree in a scratch
directory, picks run indices spread over the focused and swarm phases of a tier,
and executes the SAME indices in many fresh processes at GOMAXPROCS 1, 4 and 16,
several at a time (so that the machine is loaded unevenly). Every process must
report identical (schedule digest, yields, context switches, result digest) per
index. Any difference is printed and the script exits 1.

usage: selftest/determinism.py [--procs 36] [--indices 60] [--tier quick] [--seed 1]
"""
import argparse, json, os, shutil, subprocess, sys, tempfile, time
from concurrent.futures import ThreadPoolExecutor

VERIF = os.path.dirname(os.path.dirname(os.path.abspath(__file__)))
ENV = dict(os.environ, GOFLAGS="-mod=mod", GOPROXY="off", GOSUMDB="off", GOTOOLCHAIN="local")


def main():
    ap = argparse.ArgumentParser()
    ap.add_argument("--procs", type=int, default=36)
    ap.add_argument("--indices", type=int, default=60)
    ap.add_argument("--tier", default="quick")
    ap.add_argument("--seed", type=int, default=1)
    ap.add_argument("--parallel", type=int, default=8)
    a = ap.parse_args()
    scratch = os.path.join(os.environ.get("TMPDIR", "/var/tmp"), f"verif-det.{os.getpid()}")
    try:
        subprocess.run([os.path.join(VERIF, "sim/devbuild.sh"), scratch, os.environ.get("VERIF_REPO", "/repo")], check=True, env=ENV,
                       stdout=subprocess.DEVNULL)
        binp = os.path.join(scratch, "simc19")
        info = json.loads(subprocess.run([binp, "-info"], capture_output=True, text=True, check=True).stdout)
        focused = info["focused_" + a.tier]
        total = focused + 1500
        step = max(1, total // a.indices)
        idx = list(range(0, total, step))[: a.indices]
        idxs = ",".join(map(str, idx))

        def one(k):
            procs = [1, 4, 16][k % 3]
            out = os.path.join(scratch, f"det.{k}.jsonl")
            env = dict(os.environ, GORACE=f"log_path={scratch}/race.det{k} exitcode=0")
            subprocess.run([binp, "-seed", str(a.seed), "-tier", a.tier, "-indices", idxs, "-procs", str(procs), "-out", out,
                            "-racelog", f"{scratch}/race.det{k}"], env=env, check=True)
            res = {}
            for ln in open(out):
                r = json.loads(ln)
                if "index" in r and "sched_digest" in r:
                    res[r["index"]] = (r["sched_digest"], r["yields"], r["switches"], r["result_digest"], len(r.get("violations") or []))
            os.remove(out)
            return procs, res

        t0 = time.time()
        with ThreadPoolExecutor(a.parallel) as ex:
            results = list(ex.map(one, range(a.procs)))
        ref = results[0][1]
        bad = 0
        for k, (procs, res) in enumerate(results):
            for i in idx:
                if res.get(i) != ref.get(i):
                    print(f"MISMATCH index {i}: process 0 {ref.get(i)} vs process {k} (GOMAXPROCS={procs}) {res.get(i)}")
                    bad += 1
        sw = sum(1 for i in idx if ref[i][2] > 0)
        print(f"determinism self-test: {a.procs} processes x {len(idx)} run indices (tier {a.tier}, seed {a.seed}, "
              f"{sw} of them with pre-emption), GOMAXPROCS 1/4/16, {a.parallel} at a time, {time.time()-t0:.0f}s: "
              f"{'IDENTICAL' if bad == 0 else str(bad) + ' MISMATCHES'}")
        sys.exit(1 if bad else 0)
    finally:
        shutil.rmtree(scratch, ignore_errors=True)


if __name__ == "__main__":
    main()
