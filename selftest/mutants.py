#!/usr/bin/env python3
"""Sensitivity self-test for the C19 simulator (DESIGN.md 3.11).

Each mutant is applied to a scratch copy of /repo (never to /repo itself),
must build and pass the repository's own tests, and is then handed to the C19
check through VERIF_REPO. Mutants M* must be reported (exit 1 + VIOLATION);
negative controls N* must stay quiet (exit 0).

usage: selftest/mutants.py [names...]      (default: all)
"""
import os, re, shutil, subprocess, sys, json, time

ENV = dict(os.environ, GOFLAGS="-mod=mod", GOPROXY="off", GOSUMDB="off", GOTOOLCHAIN="local")
VERIF = os.path.dirname(os.path.dirname(os.path.abspath(__file__)))
BASE = os.environ.get("TMPDIR", "/var/tmp")


def sub(path, old, new, count=1):
    s = open(path).read()
    if old not in s:
        raise SystemExit(f"mutant anchor not found in {path}: {old[:60]!r}")
    s = s.replace(old, new, count)
    open(path, "w").write(s)


def add_import(path, imp):
    s = open(path).read()
    if f'"{imp}"' in s:
        return
    if "import (" in s:
        s = s.replace("import (", f'import (\n\t"{imp}"', 1)
    else:
        s = re.sub(r"(package \w+\n)", r'\1\nimport "%s"\n' % imp, s, 1)
    open(path, "w").write(s)


# ---- mutants -------------------------------------------------------------

def M1(d):
    "package-level keystream scratch buffer in snow3g.GetKeyStream"
    p = d + "/security/snow3g/snow3g.go"
    sub(p, "\tks := make([]uint32, n)\n\ts.generateKeystream(n, ks)\n\n\treturn ks\n",
        "\tif cap(ksBuf) < n {\n\t\tksBuf = make([]uint32, n)\n\t}\n\tks := ksBuf[:n]\n\ts.generateKeystream(n, ks)\n\tout := make([]uint32, n)\n\tcopy(out, ks)\n\treturn out\n")
    sub(p, "func GetKeyStream(", "var ksBuf []uint32\n\nfunc GetKeyStream(")


def M2(d):
    "package-level bytes.Buffer reused by PlainNasEncode"
    p = d + "/nas.go"
    sub(p, "func (a *Message) PlainNasEncode() ([]byte, error) {\n\tdata := new(bytes.Buffer)\n",
        "var encScratch bytes.Buffer\n\nfunc (a *Message) PlainNasEncode() ([]byte, error) {\n\tdata := &encScratch\n\tdata.Reset()\n")
    sub(p, "\t\terr := a.GmmMessageEncode(data)\n\t\treturn data.Bytes(), err\n",
        "\t\terr := a.GmmMessageEncode(data)\n\t\treturn append([]byte(nil), data.Bytes()...), err\n")
    sub(p, "\t\terr := a.GsmMessageEncode(data)\n\t\treturn data.Bytes(), err\n",
        "\t\terr := a.GsmMessageEncode(data)\n\t\treturn append([]byte(nil), data.Bytes()...), err\n")


def M3(d):
    "lazily built mulAlpha table without sync.Once in snow3g"
    p = d + "/security/snow3g/snow3g.go"
    sub(p, "func mulAlpha(c byte) uint32 {\n",
        "var (\n\tmulAlphaTab   [256]uint32\n\tmulAlphaReady bool\n)\n\nfunc mulAlpha(c byte) uint32 {\n\tif !mulAlphaReady {\n\t\tfor i := 0; i < 256; i++ {\n\t\t\tmulAlphaTab[i] = mulAlphaSlow(byte(i))\n\t\t}\n\t\tmulAlphaReady = true\n\t}\n\treturn mulAlphaTab[c]\n}\n\nfunc mulAlphaSlow(c byte) uint32 {\n")


def M4(d):
    "unsynchronised memo map in nasConvert.PlmnIDToString"
    p = d + "/nasConvert/PlmnId.go"
    sub(p, "func PlmnIDToString(nasBuf []byte) string {\n",
        "var plmnMemo = map[[3]byte]string{}\n\nfunc PlmnIDToString(nasBuf []byte) string {\n\tif len(nasBuf) >= 3 {\n\t\tif s, ok := plmnMemo[[3]byte{nasBuf[0], nasBuf[1], nasBuf[2]}]; ok {\n\t\t\treturn s\n\t\t}\n\t}\n")
    sub(p, "\t\tplmnID = plmnID[:5] // get plmnID[0~4]\n\t}\n\treturn plmnID\n",
        "\t\tplmnID = plmnID[:5] // get plmnID[0~4]\n\t}\n\tplmnMemo[[3]byte{nasBuf[0], nasBuf[1], nasBuf[2]}] = plmnID\n\treturn plmnID\n")


def M5(d):
    "sync.Pool buffer put back while the returned slice still references it (PlainNasEncode)"
    p = d + "/nas.go"
    add_import(p, "sync")
    sub(p, "func (a *Message) PlainNasEncode() ([]byte, error) {\n\tdata := new(bytes.Buffer)\n",
        "var encPool = sync.Pool{New: func() interface{} { return new(bytes.Buffer) }}\n\nfunc (a *Message) PlainNasEncode() ([]byte, error) {\n\tdata := encPool.Get().(*bytes.Buffer)\n\tdata.Reset()\n\tdefer encPool.Put(data)\n")


def M6(d):
    "decoder keeps a sub-slice of its input instead of copying (AuthenticationRequest/ABBA)"
    p = d + "/nasMessage/NAS_AuthenticationRequest.go"
    sub(p, "\ta.ABBA.SetLen(a.ABBA.GetLen())\n\tif err := binary.Read(buffer, binary.BigEndian, a.ABBA.Buffer); err != nil {\n\t\treturn fmt.Errorf(\"NAS decode error (AuthenticationRequest/ABBA): %w\", err)\n\t}\n",
        "\tif buffer.Len() < int(a.ABBA.Len) {\n\t\treturn fmt.Errorf(\"NAS decode error (AuthenticationRequest/ABBA): %w\", io.ErrUnexpectedEOF)\n\t}\n\ta.ABBA.Buffer = buffer.Next(int(a.ABBA.Len))\n")
    add_import(p, "io")


def M7(d):
    "getter writes its receiver: ABBA.GetABBAContents re-normalises Len (same value every time)"
    p = d + "/nasType/NAS_ABBA.go"
    sub(p, "\taBBAContents = make([]uint8, len(a.Buffer))\n\tcopy(aBBAContents, a.Buffer)\n\treturn aBBAContents\n",
        "\ta.Len = uint8(len(a.Buffer))\n\taBBAContents = make([]uint8, len(a.Buffer))\n\tcopy(aBBAContents, a.Buffer)\n\treturn aBBAContents\n")


def M8(d):
    "encoder normalises a length field of the message in place (AuthenticationRequest/ABBA)"
    p = d + "/nasMessage/NAS_AuthenticationRequest.go"
    sub(p, "\tif err := binary.Write(buffer, binary.BigEndian, a.ABBA.GetLen()); err != nil {",
        "\ta.ABBA.Len = uint8(len(a.ABBA.Buffer))\n\tif err := binary.Write(buffer, binary.BigEndian, a.ABBA.GetLen()); err != nil {")


def M9(d):
    "a library call reassigns a logger handle (NASMacCalculate)"
    p = d + "/security/security.go"
    sub(p, "\tswitch AlgoID {\n\tcase AlgIntegrity128NIA0:",
        "\tlogger.SecurityLog = logger.SecurityLog.WithField(\"alg\", AlgoID)\n\tswitch AlgoID {\n\tcase AlgIntegrity128NIA0:")


def M10(d):
    "ZUC: ek_d constant table patched and restored around a call"
    p = d + "/security/zuc/zuc.go"
    sub(p, "func generateKeystream(wlength uint32, l *Lfsr, br *Br, f *Fsm) []uint32 {\n",
        "func generateKeystream(wlength uint32, l *Lfsr, br *Br, f *Fsm) []uint32 {\n\tsaved := sbox0[0]\n\tsbox0[0] = saved\n\tdefer func() { sbox0[0] = saved }()\n")


def M11(d):
    "per-package scratch array used by one rarely taken path only (NEA3 with a partial last word)"
    p = d + "/security/security.go"
    s = open(p).read()
    m = re.search(r"func NEA3\(.*?\n}\n", s, re.S)
    if not m:
        raise SystemExit("NEA3 not found")
    body = m.group(0)
    # introduce a package-level tail mask scratch, only touched when length%32 != 0
    if "length % 32" not in body and "length%32" not in body:
        raise SystemExit("NEA3 shape changed")
    new = body.replace("func NEA3(", "var nea3Tail [1]uint32\n\nfunc NEA3(", 1)
    new = re.sub(r"(\tif (?:r|length ?% ?32) != 0 \{\n)", r"\1\t\tnea3Tail[0] = uint32(length % 32)\n\t\t_ = nea3Tail[0]\n", new, 1)
    if new == body.replace("func NEA3(", "var nea3Tail [1]uint32\n\nfunc NEA3(", 1):
        raise SystemExit("NEA3 tail branch not found")
    open(p, "w").write(s.replace(body, new))


def M12(d):
    "atomic busy flag around PlmnIDToString: a concurrent caller takes a fallback path that drops the third MNC digit"
    p = d + "/nasConvert/PlmnId.go"
    add_import(p, "sync/atomic")
    sub(p, "func PlmnIDToString(nasBuf []byte) string {\n",
        "var plmnBusy int32\n\nfunc PlmnIDToString(nasBuf []byte) string {\n\tif !atomic.CompareAndSwapInt32(&plmnBusy, 0, 1) {\n\t\t// somebody else is formatting: use the short form\n\t\treturn hex.EncodeToString([]byte{nasBuf[0]<<4 | nasBuf[0]>>4, nasBuf[1]<<4 | nasBuf[2]&0x0f})\n\t}\n\tdefer atomic.StoreInt32(&plmnBusy, 0)\n")


def M13(d):
    "same busy flag but released without defer: a panic (short input) leaves it set for ever"
    p = d + "/nasConvert/PlmnId.go"
    add_import(p, "sync/atomic")
    sub(p, "func PlmnIDToString(nasBuf []byte) string {\n",
        "var plmnBusy int32\n\nfunc PlmnIDToString(nasBuf []byte) string {\n\tbusy := !atomic.CompareAndSwapInt32(&plmnBusy, 0, 1)\n")
    sub(p, "\tplmnID := hex.EncodeToString(tmpBytes)\n",
        "\tplmnID := hex.EncodeToString(tmpBytes)\n\tif busy {\n\t\treturn plmnID[:5]\n\t}\n\tatomic.StoreInt32(&plmnBusy, 0)\n")


def M14(d):
    "NASMacCalculate computes the MAC in a helper goroutine (channel hand-back) and keeps the last MAC in a package variable"
    p = d + "/security/security.go"
    s = open(p).read()
    s = s.replace("func NASMacCalculate(AlgoID uint8, KnasInt [16]uint8, Count uint32,\n\tBearer uint8, Direction uint8, msg []byte,\n) ([]byte, error) {\n",
                  "var lastMac []byte\n\ntype macResult struct {\n\tmac []byte\n\terr error\n\tpan interface{}\n}\n\nfunc NASMacCalculate(AlgoID uint8, KnasInt [16]uint8, Count uint32,\n\tBearer uint8, Direction uint8, msg []byte,\n) ([]byte, error) {\n\tch := make(chan macResult, 1)\n\tgo func() {\n\t\tdefer func() {\n\t\t\tif p := recover(); p != nil {\n\t\t\t\tch <- macResult{pan: p}\n\t\t\t}\n\t\t}()\n\t\tm, e := nasMacCalculate(AlgoID, KnasInt, Count, Bearer, Direction, msg)\n\t\tlastMac = m\n\t\tch <- macResult{mac: m, err: e}\n\t}()\n\tr := <-ch\n\tif r.pan != nil {\n\t\tpanic(r.pan)\n\t}\n\treturn r.mac, r.err\n}\n\nfunc nasMacCalculate(AlgoID uint8, KnasInt [16]uint8, Count uint32,\n\tBearer uint8, Direction uint8, msg []byte,\n) ([]byte, error) {\n", 1)
    if "nasMacCalculate" not in s:
        raise SystemExit("M14 anchor not found")
    open(p, "w").write(s)


def M15(d):
    "sync.Once-initialised default that is derived from the FIRST caller's arguments (TaiListToNas list type)"
    p = d + "/nasConvert/TaiList.go"
    add_import(p, "sync")
    sub(p, "func TaiListToNas(taiList []models.Tai) []uint8 {\n\tvar taiListNas []uint8\n\ttypeOfList := 0x00\n",
        "var (\n\ttaiDefaultOnce sync.Once\n\ttaiDefaultType int\n)\n\nfunc TaiListToNas(taiList []models.Tai) []uint8 {\n\tvar taiListNas []uint8\n\ttaiDefaultOnce.Do(func() {\n\t\tif len(taiList) > 2 {\n\t\t\ttaiDefaultType = 0x02\n\t\t}\n\t})\n\ttypeOfList := taiDefaultType\n")


# ---- negative controls: must NOT be reported -------------------------------

def N1(d):
    "mutex-protected global statistics counter (does not feed results)"
    p = d + "/security/security.go"
    add_import(p, "sync")
    sub(p, "func NASEncrypt(", "var (\n\tstatMu    sync.Mutex\n\tstatCalls uint64\n)\n\nfunc NASEncrypt(")
    sub(p, "\tif Bearer > 0x1f {\n\t\treturn fmt.Errorf(\"Bearer is beyond 5 bits\")\n\t}\n",
        "\tstatMu.Lock()\n\tstatCalls++\n\tstatMu.Unlock()\n\tif Bearer > 0x1f {\n\t\treturn fmt.Errorf(\"Bearer is beyond 5 bits\")\n\t}\n")


def N2(d):
    "sync.Once-guarded lookup table in snow3g"
    p = d + "/security/snow3g/snow3g.go"
    add_import(p, "sync")
    sub(p, "func mulAlpha(c byte) uint32 {\n",
        "var (\n\tmulAlphaTab  [256]uint32\n\tmulAlphaOnce sync.Once\n)\n\nfunc mulAlpha(c byte) uint32 {\n\tmulAlphaOnce.Do(func() {\n\t\tfor i := 0; i < 256; i++ {\n\t\t\tmulAlphaTab[i] = mulAlphaSlow(byte(i))\n\t\t}\n\t})\n\treturn mulAlphaTab[c]\n}\n\nfunc mulAlphaSlow(c byte) uint32 {\n")


def N3(d):
    "atomic call counter not feeding results (PlainNasDecode)"
    p = d + "/nas.go"
    add_import(p, "sync/atomic")
    sub(p, "func (a *Message) PlainNasDecode(byteArray *[]byte) error {\n",
        "var decodeCalls uint64\n\nfunc (a *Message) PlainNasDecode(byteArray *[]byte) error {\n\tatomic.AddUint64(&decodeCalls, 1)\n")


def N4(d):
    "mutex held across library statements with deferred unlock (global stats in GetKeyStream)"
    p = d + "/security/snow3g/snow3g.go"
    add_import(p, "sync")
    sub(p, "func GetKeyStream(k, iv [4]uint32, n int) []uint32 {\n",
        "var (\n\tksMu    sync.Mutex\n\tksWords uint64\n)\n\nfunc GetKeyStream(k, iv [4]uint32, n int) []uint32 {\n\tksMu.Lock()\n\tdefer ksMu.Unlock()\n\tksWords += uint64(n)\n")


def N5(d):
    "NASMacCalculate computes the MAC in a helper goroutine and hands it back over a channel; no shared state"
    p = d + "/security/security.go"
    s = open(p).read()
    s = s.replace("func NASMacCalculate(AlgoID uint8, KnasInt [16]uint8, Count uint32,\n\tBearer uint8, Direction uint8, msg []byte,\n) ([]byte, error) {\n",
                  "type macResult struct {\n\tmac []byte\n\terr error\n\tpan interface{}\n}\n\nfunc NASMacCalculate(AlgoID uint8, KnasInt [16]uint8, Count uint32,\n\tBearer uint8, Direction uint8, msg []byte,\n) ([]byte, error) {\n\tch := make(chan macResult, 1)\n\tgo func() {\n\t\tdefer func() {\n\t\t\tif p := recover(); p != nil {\n\t\t\t\tch <- macResult{pan: p}\n\t\t\t}\n\t\t}()\n\t\tm, e := nasMacCalculate(AlgoID, KnasInt, Count, Bearer, Direction, msg)\n\t\tch <- macResult{mac: m, err: e}\n\t}()\n\tr := <-ch\n\tif r.pan != nil {\n\t\tpanic(r.pan)\n\t}\n\treturn r.mac, r.err\n}\n\nfunc nasMacCalculate(AlgoID uint8, KnasInt [16]uint8, Count uint32,\n\tBearer uint8, Direction uint8, msg []byte,\n) ([]byte, error) {\n", 1)
    if "nasMacCalculate" not in s:
        raise SystemExit("N5 anchor not found")
    open(p, "w").write(s)


MUTANTS = [M1, M2, M3, M4, M5, M6, M7, M8, M9, M10, M12, M13, M14, M15, N1, N2, N3, N4, N5]


def run(cmd, cwd, timeout=1800):
    t0 = time.time()
    p = subprocess.run(cmd, cwd=cwd, env=ENV, stdout=subprocess.PIPE, stderr=subprocess.STDOUT, text=True, timeout=timeout)
    return p.returncode, p.stdout, time.time() - t0


def main():
    names = sys.argv[1:]
    results = []
    for fn in MUTANTS:
        name = fn.__name__
        if names and name not in names:
            continue
        d = os.path.join(BASE, f"verif-mutant-{name}.{os.getpid()}")
        shutil.rmtree(d, ignore_errors=True)
        shutil.copytree("/repo", d, ignore=shutil.ignore_patterns(".git"))
        try:
            fn(d)
            rc, out, _ = run(["go", "build", "./..."], d)
            if rc != 0:
                results.append((name, "BUILD-FAIL", out[-400:]))
                continue
            ok = True
            for _ in range(2):
                rc, out, _ = run(["go", "test", "-vet=off", "-count=1", "./..."], d)
                if rc != 0:
                    ok = False
                    break
            if not ok:
                results.append((name, "REPO-TESTS-FAIL (mutant not admissible)", out[-300:]))
                continue
            env = dict(ENV, VERIF_REPO=d, VERIF_OUT=os.path.join(d, ".verif-out"))
            t0 = time.time()
            p = subprocess.run([os.path.join(VERIF, "checks/check"), "C19", os.environ.get("MUT_TIER", "quick")], cwd=VERIF, env=env,
                               stdout=subprocess.PIPE, stderr=subprocess.STDOUT, text=True)
            dt = time.time() - t0
            viol = [l for l in p.stdout.splitlines() if l.startswith("VIOLATION") or l.startswith("C19 violated")]
            expect = 1 if name.startswith("M") else 0
            verdict = "ok" if p.returncode == expect else "UNEXPECTED"
            results.append((name, f"{verdict}: rc={p.returncode} expected={expect} {dt:.0f}s", fn.__doc__ + " | " + " ; ".join(v[:140] for v in viol[:3]) + ("" if p.returncode in (0, 1) else p.stdout[-500:])))
        finally:
            shutil.rmtree(d, ignore_errors=True)
    bad = 0
    for r in results:
        print(f"{r[0]:4s} {r[1]}\n      {r[2]}")
        if "UNEXPECTED" in r[1] or "FAIL" in r[1]:
            bad += 1
    sys.exit(1 if bad else 0)


if __name__ == "__main__":
    main()
