#!/bin/bash
# Runs every change kept under /verif/seeded/<id>/ through the check of the property it
# breaks (quick tier unless TIER is set), each in its own scratch worktree of /repo's HEAD
# (never in /repo itself), and prints one line per change: caught / MISSED / trouble.
# usage: selftest/seeded.sh [id ...]
cd "$(dirname "$0")/.." || exit 2
TIER=${TIER:-quick}
ids=${*:-$(ls seeded)}
for id in $ids; do
  prop=$(python3 -c 'import json,sys; print(json.load(open(sys.argv[1]))["property"])' seeded/$id/meta.json)
  wt=$(mktemp -d "${TMPDIR:-/var/tmp}/verif-seeded.XXXXXX"); rmdir "$wt"
  git -C /repo worktree add -q --detach "$wt" HEAD || { echo "$id trouble: worktree"; continue; }
  if ! git -C "$wt" apply "$PWD/seeded/$id/patch.diff"; then echo "$id trouble: patch does not apply"; git -C /repo worktree remove --force "$wt"; continue; fi
  out=$(mktemp -d "${TMPDIR:-/var/tmp}/verif-seeded-out.XXXXXX")
  t0=$(date +%s)
  VERIF_REPO="$wt" VERIF_OUT="$out" ./checks/check "$prop" "$TIER" > "$out/log" 2>&1; rc=$?
  dt=$(( $(date +%s) - t0 ))
  key=$(grep -m1 "^$prop violated" "$out/log" | cut -c1-150)
  case $rc in
    1) echo "$id $prop caught (${dt}s): $key";;
    0) echo "$id $prop MISSED (${dt}s)";;
    *) echo "$id $prop trouble rc=$rc (${dt}s): $(tail -2 "$out/log" | cut -c1-200)";;
  esac
  git -C /repo worktree remove --force "$wt"; rm -rf "$out"
done
